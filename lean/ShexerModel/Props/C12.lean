import ShexerModel.Lemmas.CandLemmas
import ShexerModel.Lemmas.KeyLemmas
import ShexerModel.Lemmas.SortLemmas
import ShexerModel.Lemmas.MergeFigLemmas
/-! C12 — raising the acceptance threshold only removes constraints.

The threshold enters the pipeline at exactly one place, the filter that turns profile entries into
candidates (`Shexer.candidates`); the profile itself does not depend on it.  So for `t₁ ≤ t₂` the
candidates at `t₂` are a sub-list of those at `t₁` *with identical figures*; everything downstream
(merge stages, relaxation) works on these lists. -/
namespace Shexer.C12
open Shexer Shexer.Shexer Profiler

/-- `t₁ ≤ t₂` as rationals -/
def ThresholdLe (c1 c2 : Config) : Prop :=
  0 < c1.thDen ∧ 0 < c2.thDen ∧ c1.thNum * c2.thDen ≤ c2.thNum * c1.thDen

/-- whatever passes the higher threshold passes the lower one -/
theorem passes_antitone (c1 c2 : Config) (h : ThresholdLe c1 c2) (N n : Nat) :
    passes c2 N n = true → passes c1 N n = true :=
  passes_mono c1 c2 N h.1 h.2.1 h.2.2 n

/-- the profile (counts of instances per feature) does not depend on the threshold at all -/
theorem profile_independent (cfg : Config) (a b : Nat) (g : Graph) :
    Profiler.run { cfg with thNum := a, thDen := b } g = Profiler.run cfg g := rfl

/-- **candidates only shrink**: at the higher threshold the candidate list is the lower one's,
filtered — same order, same statements, same figures -/
theorem candidates_shrink (c1 c2 : Config) (h : ThresholdLe c1 c2) (N : Nat) (inv : Bool) (pp : PropProfile) :
    candidates c2 N inv pp = (candidates c1 N inv pp).filter fun s => passes c2 N s.n :=
  candidates_antitone c1 c2 N inv pp (passes_antitone c1 c2 h N)

/-- every candidate at `t₂` is a candidate at `t₁`, figure included -/
theorem candidate_survives_down (c1 c2 : Config) (h : ThresholdLe c1 c2) (N : Nat) (inv : Bool) (pp : PropProfile) (s : Stmt)
    (hs : s ∈ candidates c2 N inv pp) : s ∈ candidates c1 N inv pp := by
  rw [candidates_shrink c1 c2 h] at hs
  exact (List.mem_filter.mp hs).1

/-- at threshold 0 nothing observed in the data is omitted from the candidates -/
theorem zero_complete (cfg : Config) (h0 : cfg.thNum = 0) (N : Nat) (inv : Bool) (pp : PropProfile) :
    candidates cfg N inv pp = (entries pp).map (mkStmt inv) := by
  rw [candidates_eq]
  have : (entries pp).filter (fun e => passes cfg N e.2.2.2) = entries pp := by
    apply List.filter_eq_self.mpr
    intro e _
    rw [passes_iff, h0]; simp
  rw [this]

/-- at threshold 1 only entries held by all instances remain -/
theorem one_universal (cfg : Config) (h1 : cfg.thNum = cfg.thDen) (hb : 0 < cfg.thDen) (N : Nat) (inv : Bool) (pp : PropProfile)
    (s : Stmt) (hs : s ∈ candidates cfg N inv pp) : N ≤ s.n := by
  have := (candidate_props cfg N inv pp s hs).1
  rw [passes_iff, h1] at this
  have h2 : cfg.thDen * N ≤ cfg.thDen * s.n := by rw [Nat.mul_comm cfg.thDen s.n]; exact this
  exact Nat.le_of_mul_le_mul_left h2 hb

/-- **keys are monotone**: if the candidates at the higher threshold are among those at the lower one
(`candidate_survives_down`), every constraint key present after the merge stages at the higher
threshold is present at the lower one — whatever kind the merge chooses -/
theorem keys_monotone (c1 c2 : Config) (l1 l2 : List Stmt) (h1 : ∀ s ∈ l1, Plain s) (hsub : ∀ s ∈ l2, s ∈ l1)
    (hprop : c1.instProp = c2.instProp) (k : String × Spec.VClass)
    (hk : k ∈ (selectValid c2 l2).map (keyOf c2)) : k ∈ (selectValid c1 l1).map (keyOf c1) := by
  have h2 : ∀ s ∈ l2, Plain s := fun s hs => h1 s (hsub s hs)
  rw [selectValid_keys c2 l2 h2] at hk
  rw [selectValid_keys c1 l1 h1]
  simp only [List.mem_map] at *
  obtain ⟨s, hs, rfl⟩ := hk
  refine ⟨s, hsub s hs, ?_⟩
  unfold keyOf vclassOf
  rw [hprop]

/-- **the figure kept for a key does not depend on which exact cardinalities survived**: with `keep_less_specific` (default) the
statement that represents a group of candidates of one (property, value class) carries the count of the group's `+` candidate - the
number of instances having the key - whether the group is `{1}, {2}, +`, `{1}, +` or `+` alone (in a "useless `+`" group the exact
candidate has that same count).  Since `+` passes every threshold an exact candidate of the key passes (`candidate_survives_down`, its
count is the largest), the figure of a surviving key - and the sum printed for `NONLITERAL`, `b.n + i.n` in `mergeGroup` - is the same at
every threshold at which the key survives.  (Harness: NONLITERAL figures are compared across thresholds under this switch.) -/
theorem kept_figure_is_the_plus_figure (cfg : Config) (hk : cfg.keepLessSpecific = true) (g : List Stmt) (m : Nat)
    (hex : ∃ s ∈ g, s.card = Card.plus)
    (hall : ∀ s ∈ g, s.card = Card.plus → s.n = m) :
    (decideBest cfg g).n = m := by
  unfold decideBest
  split
  · -- useless positive closure: two statements of equal count, exactly one of them `+`
    rename_i hu
    have hu2 := (Bool.and_eq_true _ _).mp hu |>.2
    unfold uselessPlus at hu2
    split at hu2
    · rename_i a b
      have hn : a.n = b.n := by
        have := (Bool.and_eq_true _ _).mp hu2 |>.1
        exact of_decide_eq_true (by simpa using this) 
      have hx := (Bool.and_eq_true _ _).mp hu2 |>.2
      by_cases ha : a.card = Card.plus
      · have hb : b.card ≠ Card.plus := by
          intro hb; simp [ha, hb] at hx
        have : a.n = m := hall a (by simp) ha
        have h1 : (a.card != Card.plus) = false := by simp [ha]
        have h2 : (b.card != Card.plus) = true := by simp [hb]
        simp only [List.find?, h1, h2, Option.getD]
        omega
      · have hb : b.card = Card.plus := by
          obtain ⟨s, hs, hc⟩ := hex
          simp at hs
          rcases hs with rfl | rfl
          · exact absurd hc ha
          · exact hc
        have : b.n = m := hall b (by simp) hb
        have h1 : (a.card != Card.plus) = true := by simp [ha]
        simp only [List.find?, h1, Option.getD]
        omega
    · exact absurd hu2 (by simp)
  · obtain ⟨s, hs, hc⟩ := hex
    have hsome : ((sortDesc g).find? fun s => s.card == Card.plus).isSome = true := by
      rw [List.find?_isSome]
      exact ⟨s, (Shexer.mem_sortDesc g s).mpr hs, by simp [hc]⟩
    obtain ⟨r, hr⟩ := Option.isSome_iff_exists.mp hsome
    have hrm := List.mem_of_find?_eq_some hr
    have hrc := List.find?_some hr
    simp only [hr, Option.orElse, Option.getD]
    exact hall r ((Shexer.mem_sortDesc g r).mp hrm) (by simpa using hrc)


/-- **the figure of a `NONLITERAL` constraint is the sum of the figures kept for the two kinds**: whenever the node-kind merge yields
`NONLITERAL` for a group (whatever the disjunction switches), the group holds a `BNode` and an `IRI` statement and the printed count is
`b.n + i.n` - with `kept_figure_is_the_plus_figure` both summands are threshold-independent under `keep_less_specific`, hence so is the sum
(agent: MergeFigLemmas) -/
theorem nonliteral_figure_is_the_sum (cfg : Config) (g : List Stmt)
    (hg : ∀ s ∈ g, s.types ≠ [Gen.NONLITERAL_ELEM_TYPE])
    (h : (mergeGroup cfg g).types = [Gen.NONLITERAL_ELEM_TYPE]) :
    ∃ b ∈ g, ∃ i ∈ g, b.ty = Gen.BNODE_ELEM_TYPE ∧ i.ty = Gen.IRI_ELEM_TYPE ∧
      (mergeGroup cfg g).n = b.n + i.n ∧ (mergeGroup cfg g).parts = some (b.n, i.n) :=
  MergeFigLemmas.nonliteral_figure_is_the_sum cfg g hg h

/- non-vacuity -/
example : ThresholdLe { thNum := 1, thDen := 3 } { thNum := 1, thDen := 2 } := by unfold ThresholdLe; decide
example : (decideBest {} [{ prop := "p", types := ["IRI"], card := Card.exact 1, n := 6 }, { prop := "p", types := ["IRI"], card := Card.plus, n := 10 }]).n = 10 := by
  decide +kernel

example : (mergeGroup {} [{ prop := "q", types := [Gen.BNODE_ELEM_TYPE], card := Card.plus, n := 4 },
                          { prop := "q", types := [Gen.IRI_ELEM_TYPE], card := Card.plus, n := 6 }]).types = [Gen.NONLITERAL_ELEM_TYPE] := by decide +kernel

end Shexer.C12
