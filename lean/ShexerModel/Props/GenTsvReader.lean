import ShexerModel.Lemmas.GenTsvReader
import ShexerModel.Props.C08
/-! # Tie 1, fragment S — the TSV reader assembled from regenerated functions is the reader model

`GenTsvReader.genTsvParseLine` is one round of `TsvNtTriplesYielder.yield_triples` with the regenerated `GenS.tsv_look_for_tokens`
(`str.split("\t")`), `GenS.tune_token`, `GenS.tune_prop` in the places of the calls (glue written by hand).  Obligation of C08:

* `regenerated_tsv_reader_is_model` - for **every** line the triple read, "error line" or the exception class are those of `Tsv.parseLine`,
  the model `C08.tsv_agrees_with_nt` is about; `float()` read as the model reads it (agent: GenTsvReader).
* `tsv_tokens_is_model` - `_look_for_tokens` is `Tsv.splitTab`. -/
namespace Shexer.GenTsvReaderProps
open Shexer PyOps Shexer.GenStrTune2 Shexer.GenNtReader Shexer.GenTsvReader

theorem tsv_tokens_is_model (l : List Char) : GenS.tsv_look_for_tokens l = Except.ok (Tsv.splitTab l) :=
  tsv_tokens_eq l

theorem regenerated_tsv_reader_is_model (resolve : List Char → List Char → List Char) (line : List Char) :
    (genTsvParseLine resolve ttlFloat line).map (Option.map tripleOfObjs) = (Tsv.parseLine line).mapError excOfNt :=
  genTsvParseLine_eq resolve line

/- non-vacuity: a line with an untyped integer, a line with two fields only -/
example : ((genTsvParseLine (fun _ r => r) ttlFloat "<http://e/s>\t<http://e/p>\t42".toList).map (Option.map tripleOfObjs)).toOption =
    some (some { s := .iri "http://e/s", p := "http://e/p", o := .lit "http://www.w3.org/2001/XMLSchema#integer" }) := by decide +kernel
example : ((genTsvParseLine (fun _ r => r) ttlFloat "<http://e/s>\t<http://e/p>".toList).map (Option.map tripleOfObjs)).toOption = some none := by
  decide +kernel

end Shexer.GenTsvReaderProps
