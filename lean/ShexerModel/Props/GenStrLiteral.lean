import ShexerModel.Lemmas.GenStrLiteral
/-! # Tie 1, fragment S — string functions regenerated from /repo are the ones the models assume

`GeneratedStr.lean` is rewritten by `harness/extract.py` on every run from the Python AST of
`utils/uri.py:remove_corners`, `utils/uri.py:decide_literal_type`, `utils/shapes.py:build_shapes_name_for_class_uri`
(and `ListOfClassesToShapeMap._get_shape_label_for_class_uri`), over the Python-string primitives of `Base/PyOps.lean`
(`find`, `rfind`, slices with Python's clamping, `startswith`, `endswith`, `in`, `strip`).  These theorems - obligations
of C05, C06, C07, C08 - say the regenerated functions equal the hand-written `Nt.removeCorners`, `Ttl.removeCornersSoft`,
`Nt.decideType`, `Ttl.decideType`, `Profiler.shapeName` **for every input**.  A change of one of those Python functions
changes the generated definition; if the behaviour changes, a proof below no longer checks (and if the function leaves the
translatable fragment, the definition disappears and the file no longer builds): the check then reports a broken obligation
and searches for a failing input. -/
/-! This file: `decide_literal_type` only (obligation of C06, C07, C08). -/
namespace Shexer.GenStrLiteralProps
open Shexer GenStr PyOps

theorem decide_literal_type_is_nt_model (resolve : List Char → List Char → List Char) (tok : List Char) :
    GenS.decide_literal_type resolve tok none = convNt (Nt.decideType tok) :=
  decide_literal_type_nt resolve tok

theorem decide_literal_type_is_ttl_model (resolve : List Char → List Char → List Char) (tok : List Char) (base : Option (List Char)) :
    GenS.decide_literal_type resolve tok base = convTtl (Ttl.decideType resolve base tok) :=
  decide_literal_type_ttl resolve tok base


end Shexer.GenStrLiteralProps
