import ShexerModel.Generated
import ShexerModel.Spec.ConfigSpec
import ShexerModel.Model.Ctor
/-! C20 — contradictory or unsupported configurations are rejected up front.
The guard is *generated* from the AST of `Shaper.__init__`, `shex_graph`, `profile_graph`, the seven
`_check_*` methods and `check_just_one_not_none`; the theorems say it coincides with the reference
predicate for every argument record (all strings, all presence vectors, all rational thresholds). -/
namespace Shexer.C20
open Shexer.Spec

/-- a guard that only ever answers `ok` / `ValueError`, as a Boolean -/
def asGuard (b : Bool) : Guard := if b then Guard.ok else Guard.valueError

theorem andThen_asGuard (b c : Bool) : Guard.andThen (asGuard b) (asGuard c) = asGuard (b && c) := by
  cases b <;> cases c <;> rfl

theorem andThen_ok (g : Guard) : Guard.andThen g Guard.ok = g := by
  cases g <;> rfl

theorem count_eq (bs : List Bool) : bs.count true = Spec.count bs := by
  induction bs with
  | nil => rfl
  | cons b bs ih => cases b <;> simp_all [Spec.count, List.filter]

theorem just_one (bs : List Bool) : Gen.check_just_one_not_none bs = asGuard (Spec.count bs == 1) := by
  unfold Gen.check_just_one_not_none asGuard
  rw [count_eq]
  by_cases h : Spec.count bs = 1 <;> simp [h]

theorem input_format (f : String) : Gen.check_input_format f = asGuard (inputFormats.contains f) := by
  unfold Gen.check_input_format asGuard inputFormats
  simp only [List.contains_cons, List.contains_nil]
  grind

theorem examples_mode (m : Option String) : Gen.check_examples_mode m = asGuard (examplesModes.contains m) := by
  unfold Gen.check_examples_mode asGuard examplesModes
  simp only [List.contains_cons, List.contains_nil]
  grind

theorem or_config (d r : Bool) : Gen.check_or_config d r = asGuard (!(r && d)) := by
  cases d <;> cases r <;> rfl

theorem compression (m : Option String) (e g l : Bool) :
    Gen.check_compression_mode m e g l = asGuard (compressionModes.contains m && !(m.isSome && (e || g || l))) := by
  unfold Gen.check_compression_mode asGuard compressionModes
  simp only [List.contains_cons, List.contains_nil]
  cases e <;> cases g <;> cases l <;> grind

theorem target_classes (t f all smf smr : Bool) :
    Gen.check_target_classes t f all smf smr =
      asGuard (if all then !t && !f else Spec.count [t, f, smf, smr] == 1) := by
  unfold Gen.check_target_classes
  rw [andThen_ok, just_one]
  cases all <;> cases t <;> cases f <;> rfl

/-- the target rule as the leading checks decide it (two shape maps at once are caught later) -/
def tgtLeading (a : InitArgs) : Bool :=
  if a.all_classes_mode then !a.target_classes && !a.file_target_classes
  else Spec.count [a.target_classes, a.file_target_classes, a.shape_map_file, a.shape_map_raw] == 1

/-- what the six leading checks decide: everything in `validInit` except "at most one shape map" -/
def validLeading (a : InitArgs) : Bool := oneSource a && tgtLeading a && restOk a

/-- the six leading checks raise ValueError exactly outside `validLeading`, and nothing else ever -/
theorem init_exact (a : InitArgs) :
    Gen.init_guard a = if validLeading a then Guard.ok else Guard.valueError := by
  unfold Gen.init_guard
  rw [andThen_ok, just_one, target_classes, or_config, input_format, compression, examples_mode]
  simp only [andThen_asGuard]
  show asGuard _ = asGuard (validLeading a)
  congr 1
  unfold validLeading oneSource tgtLeading restOk remoteSource
  grind

/-- one source among the seven, spelled out -/
theorem oneSource_cases (gf gl rg ug lu ue rl : Bool)
    (h : Spec.count [gf, gl, rg, ug, lu, ue, rl] = 1) (h1 : gf = false) (h2 : rg = false) (h3 : ue = false) (h4 : rl = false) :
    (gl || ug || lu) = true := by
  subst h1 h2 h3 h4
  cases gl <;> cases ug <;> cases lu <;> simp_all [Spec.count]

theorem count4_not_both (t f m r : Bool) (h : Spec.count [t, f, m, r] = 1) : (m && r) = false := by
  cases t <;> cases f <;> cases m <;> cases r <;> simp_all [Spec.count]

theorem targetsOk_eq (a : InitArgs) : targetsOk a = (tgtLeading a && !(a.shape_map_file && a.shape_map_raw)) := by
  unfold targetsOk tgtLeading
  cases hall : a.all_classes_mode
  · simp only [Bool.false_eq_true, if_false]
    by_cases hc : Spec.count [a.target_classes, a.file_target_classes, a.shape_map_file, a.shape_map_raw] = 1
    · have := count4_not_both _ _ _ _ hc
      simp [hc, this]
    · simp [hc]
  · simp [Bool.and_assoc]

theorem validInit_split (a : InitArgs) : validInit a = (validLeading a && !(a.shape_map_file && a.shape_map_raw)) := by
  unfold validInit validLeading
  rw [targetsOk_eq]
  cases oneSource a <;> cases tgtLeading a <;> cases restOk a <;> cases (a.shape_map_file && a.shape_map_raw) <;> rfl

theorem validLeading_of_validInit (a : InitArgs) (h : validInit a = true) : validLeading a = true := by
  rw [validInit_split] at h
  cases hl : validLeading a <;> simp_all

theorem validInit_eq (a : InitArgs) (hl : validLeading a = true) :
    validInit a = !(a.shape_map_file && a.shape_map_raw) := by
  rw [validInit_split, hl]; simp

theorem leading_oneSource (a : InitArgs) (hl : validLeading a = true) :
    Spec.count [a.graph_file_input, a.graph_list_of_files_input, a.raw_graph, a.url_graph_input,
      a.list_of_url_input, a.url_endpoint, a.rdflib_graph] = 1 := by
  unfold validLeading oneSource at hl
  simp only [Bool.and_eq_true, beq_iff_eq] at hl
  exact hl.1.1

theorem leading_restOk (a : InitArgs) (hl : validLeading a = true) : restOk a = true := by
  unfold validLeading at hl
  simp only [Bool.and_eq_true] at hl
  exact hl.2

/-- with a readable source, the shape-map stage only objects to two shape maps at once -/
theorem stage_of_leading (a : InitArgs) (h : smUnsupported a = false) (hl : validLeading a = true) :
    Ctor.shapeMapStage a = asGuard (!(a.shape_map_file && a.shape_map_raw)) := by
  unfold Ctor.shapeMapStage
  by_cases hsm : (!a.shape_map_file && !a.shape_map_raw) = true
  · rw [if_pos hsm]
    cases hf : a.shape_map_file <;> cases hr : a.shape_map_raw <;> simp_all [asGuard]
  · rw [if_neg hsm]
    have hsm' : (a.shape_map_file || a.shape_map_raw) = true := by
      cases hf : a.shape_map_file <;> cases hr : a.shape_map_raw <;> simp_all
    have hone := leading_oneSource a hl
    have hsg : (if (a.url_endpoint || a.rdflib_graph) = true then Guard.ok
        else if a.graph_file_input = true then
          (if Ctor.rdflibCannotRead a.input_format = true then Guard.otherError "PluginException"
           else if a.compression_mode.isSome = true then Guard.otherError "ParserError" else Guard.ok)
        else if a.raw_graph = true then
          (if Ctor.rdflibCannotRead a.input_format = true then Guard.otherError "PluginException" else Guard.ok)
        else Guard.valueError) = Guard.ok := by
      unfold smUnsupported at h
      rw [hsm'] at h
      have hcr : Ctor.rdflibCannotRead a.input_format = (a.input_format == "tsv_spo" || a.input_format == "turtle_iter") := rfl
      rw [hcr]
      by_cases h1 : (a.url_endpoint || a.rdflib_graph) = true
      · rw [if_pos h1]
      · rw [if_neg h1]
        have hue : a.url_endpoint = false := by cases hx : a.url_endpoint <;> simp_all
        have hrl : a.rdflib_graph = false := by cases hx : a.rdflib_graph <;> simp_all
        by_cases h2 : a.graph_file_input = true
        · simp_all
        · have hgf : a.graph_file_input = false := by simpa using h2
          by_cases h3 : a.raw_graph = true
          · simp_all
          · have hrg : a.raw_graph = false := by simpa using h3
            have := oneSource_cases _ _ _ _ _ _ _ hone hgf hrg hue hrl
            simp_all
    simp only [hsg]
    cases hm : (a.shape_map_file && a.shape_map_raw) <;> simp [asGuard, Guard.andThen]

/-- FULL STATEMENT of the constructor part of C20 (false today, see the witnesses below):
`∀ a, Ctor.ctor a = if validInit a then Guard.ok else Guard.valueError`.
Proved: the same with the hypothesis that no shape map meets a source rdflib is not handed /
cannot read (`smUnsupported`, finding F-C20-2). -/
theorem ctor_exact_partial (a : InitArgs) (h : smUnsupported a = false) :
    Ctor.ctor a = if validInit a then Guard.ok else Guard.valueError := by
  unfold Ctor.ctor
  rw [init_exact]
  by_cases hl : validLeading a = true
  · rw [if_pos hl, stage_of_leading a h hl, validInit_eq a hl]
    cases hm : (a.shape_map_file && a.shape_map_raw) <;> simp [asGuard, Guard.andThen]
  · have hv : validInit a = false := by
      cases hv : validInit a
      · rfl
      · exact absurd (validLeading_of_validInit a hv) hl
    simp only [hl, hv]
    rfl

/-- invalid configurations never get past the constructor with anything but ValueError -/
theorem ctor_rejects_invalid_partial (a : InitArgs) (h : smUnsupported a = false) (hv : validInit a = false) :
    Ctor.ctor a = Guard.valueError := by
  rw [ctor_exact_partial a h, hv]; rfl

/-- ¬ full statement, witness 1 (F-C20-2): a shape map with several files is valid by the property
text, yet the constructor raises -/
theorem ctor_fails_at_shape_map_with_list_of_files :
    let a : InitArgs := { graph_list_of_files_input := true, shape_map_raw := true }
    validInit a = true ∧ Ctor.ctor a = Guard.valueError := by decide

/-- ¬ full statement, witness 2 (F-C20-2): a shape map with TSV input fails with a parser-plugin error -/
theorem ctor_fails_at_shape_map_with_tsv :
    let a : InitArgs := { raw_graph := true, shape_map_raw := true, input_format := "tsv_spo" }
    validInit a = true ∧ Ctor.ctor a = Guard.otherError "PluginException" := by decide

/-- FULL STATEMENT "no invalid configuration is deferred": `validInit a → Ctor.deferred a = ok`.
Proved outside `compressionWithoutFile` (finding F-C20-1) and outside remote sources in a line format (finding F-C20-4). -/
theorem not_deferred_partial (a : InitArgs) (hv : validInit a = true) (hz : compressionWithoutFile a = false)
    (hr : ((a.url_graph_input || a.list_of_url_input) && Ctor.rdflibCannotRead a.input_format) = false) :
    Ctor.deferred a = Guard.ok := by
  have hl := validLeading_of_validInit a hv
  have hone := leading_oneSource a hl
  have hrem : (a.compression_mode.isSome && remoteSource a) = false := by
    have := leading_restOk a hl
    unfold restOk at this
    simp only [Bool.and_eq_true, Bool.not_eq_true'] at this
    exact this.1.1.2
  unfold Ctor.deferred
  unfold compressionWithoutFile at hz
  cases hs : a.compression_mode.isSome
  · have hnz : (a.compression_mode == some Gen.ZIP) = false := by
      cases hcm : a.compression_mode <;> simp_all
    simp [hnz, hs, hr]
  · rw [hs] at hz hrem
    simp only [Bool.true_and] at hz hrem
    unfold remoteSource at hrem
    cases h1 : a.graph_file_input <;> cases h2 : a.graph_list_of_files_input <;>
      cases h3 : a.raw_graph <;> cases h4 : a.rdflib_graph <;> cases h5 : a.url_endpoint <;>
        cases h6 : a.url_graph_input <;> cases h7 : a.list_of_url_input <;> simp_all [Spec.count]

/-- ¬ witness (F-C20-4): a remote source in TSV is accepted and rejected at the first call -/
theorem deferred_fails_at_remote_tsv :
    let a : InitArgs := { url_graph_input := true, all_classes_mode := true, input_format := "tsv_spo" }
    validInit a = true ∧ Ctor.ctor a = Guard.ok ∧ Ctor.deferred a = Guard.valueError := by decide

/-- ¬ witness (F-C20-1): raw graph + zip is accepted and fails at the first call -/
theorem deferred_fails_at_raw_graph_zip :
    let a : InitArgs := { raw_graph := true, all_classes_mode := true, compression_mode := some "zip" }
    validInit a = true ∧ Ctor.ctor a = Guard.ok ∧ Ctor.deferred a = Guard.otherError "TypeError" := by decide

theorem output_params (so f u : Bool) : Gen.check_correct_output_params so f u = asGuard (so || f || u) := by
  cases so <;> cases f <;> cases u <;> rfl

theorem output_format (f : String) : Gen.check_output_format f = asGuard (outputFormats.contains f) := by
  unfold Gen.check_output_format asGuard outputFormats
  simp only [List.contains_cons, List.contains_nil]
  grind

theorem threshold (n : Int) (d : Nat) :
    Gen.check_aceptance_threshold n d = asGuard (decide (0 ≤ n) && decide (n ≤ (d : Int))) := by
  unfold Gen.check_aceptance_threshold asGuard
  by_cases h1 : n < 0 <;> by_cases h2 : n > (d : Int) <;> simp [h1, h2] <;> omega

/-- `shex_graph` raises ValueError exactly for: no sink, unknown format, threshold outside [0,1] -/
theorem shex_call_exact (c : CallArgs) :
    Gen.shex_graph_guard c = if validCall c then Guard.ok else Guard.valueError := by
  unfold Gen.shex_graph_guard
  rw [andThen_ok, output_params, output_format, threshold]
  simp only [andThen_asGuard]
  show asGuard _ = asGuard (validCall c)
  congr 1
  unfold validCall
  grind

/-- `profile_graph` raises ValueError exactly when no sink is given (and never TypeError: the
arity of the call inside `profile_graph` is part of the generated term) -/
theorem profile_call_exact (c : CallArgs) :
    Gen.profile_graph_guard c = if validProfileCall c then Guard.ok else Guard.valueError := by
  unfold Gen.profile_graph_guard
  rw [andThen_ok, output_params]
  show asGuard _ = asGuard (validProfileCall c)
  congr 1
  unfold validProfileCall
  simp

/-- every check of the constructor is sequenced before any work is done: the generated guard is the
conjunction of six checks (a dropped call would change this number and break `init_exact`) -/
theorem init_has_six_checks : Gen.init_guard_nchecks = 6 := rfl

/- non-vacuity: both outcomes are inhabited, on records the property text names -/
example : Gen.init_guard { raw_graph := true, all_classes_mode := true } = Guard.ok := by decide
example : Gen.init_guard { raw_graph := true, all_classes_mode := true, shape_map_raw := true } = Guard.ok := by decide
example : Gen.init_guard { raw_graph := true, graph_file_input := true, all_classes_mode := true } = Guard.valueError := by decide
example : Gen.init_guard { raw_graph := true } = Guard.valueError := by decide
example : Gen.init_guard { url_endpoint := true, target_classes := true, compression_mode := some "gz" } = Guard.valueError := by decide
example : Gen.init_guard { raw_graph := true, target_classes := true, allow_redundant_or := true } = Guard.valueError := by decide
example : Gen.shex_graph_guard { string_output := true, thNum := 101, thDen := 100 } = Guard.valueError := by decide
example : Gen.shex_graph_guard { string_output := true, thNum := 1, thDen := 1 } = Guard.ok := by decide

end Shexer.C20
