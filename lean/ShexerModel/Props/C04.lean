import ShexerModel.Model.MergeE
import ShexerModel.Lemmas.SortLemmas
/-! # C04 — extraction never crashes on a valid graph and a valid configuration

The part of C04 that is *logic* is the merge of node-kind constraints: `MergeableConstraints` keeps three optional slots
and a list, and its strategies dereference them (`self._iri_constraint.n_occurences`, `self._shape_constraints[0]`).
`Model/MergeE.lean` is that code with Python's failure modes made explicit (`Except PyErr`), short-circuit order
included.  Here:

* `merge_never_fails` — for **every** non-empty group, every configuration: no `AttributeError`, no `IndexError`,
  and the value is exactly the one of the total function `Shexer.mergeGroup` that the pipeline model uses
  (so every other theorem about `Shexer.run` is about the value the failure-aware code computes);
* `groups_are_nonempty` — the only call site (`_group_IRI_BNODE_constraints`) hands over `c :: members`;
* `unguarded_variant_fails` — a kernel-checked witness that the same code *without* the `len(shapes) == 1` guard does
  fail (IRI + BNode values, no shape reference): the theorem is not vacuous, the guard is what carries it.

The model's remaining stages are total functions of total data (insertion-ordered dictionaries with defaulting
updates); whether the implementation's dictionary accesses are equally safe (`KeyError` in the counters of pass 2, the
SHACL macro table) is decided by the correspondence and the crash search, not by a theorem. -/
namespace Shexer.C04
open Shexer MergeE

/-- the dominant constraint as the total model computes it -/
def domTotal (sl : Slots) (fallback : Stmt) : Stmt × Bool :=
  match sl.bnode with
  | some b =>
    match sl.iri with
    | some i =>
      match sl.shapes with
      | [s] => if i.n + b.n == s.n then (s, true) else (nonliteral b i, false)
      | _ => (nonliteral b i, false)
    | none =>
      match sl.shapes with
      | s :: _ => if s.n == b.n then (s, true) else (b, false)
      | [] => (b, false)
  | none =>
    match sl.iri, sl.shapes with
    | some i, [] => (i, false)
    | some i, s :: _ => if s.n < i.n then (i, false) else (s, true)
    | none, s :: _ => (s, true)
    | none, [] => (fallback, false)

theorem mergeGroup_eq_total (cfg : Config) (g : List Stmt) :
    mergeGroup cfg g =
      (let sl := slotsOf g
       let d := domTotal sl ((sortDesc g).headD default)
       let t := tuneOr cfg sl d.1 d.2
       feed sl d.1 t.1 d.2 t.2) := rfl

/-- the strategies never fail unless all three slots are empty, and then compute `domTotal` -/
theorem strategy_ok (sl : Slots) (fb : Stmt) (h : ¬ (sl.bnode = none ∧ sl.iri = none ∧ sl.shapes = [])) :
    (if sl.bnode.isSome then bnodeStrategy sl else noBnodeStrategy sl) = .ok (domTotal sl fb) := by
  obtain ⟨bnode, iri, shapes⟩ := sl
  cases bnode with
  | none =>
    cases iri with
    | none =>
      cases shapes with
      | nil => exact absurd ⟨rfl, rfl, rfl⟩ h
      | cons s ss => rfl
    | some i =>
      cases shapes with
      | nil => rfl
      | cons s ss =>
        simp only [Option.isSome_none, Bool.false_eq_true, if_false, noBnodeStrategy, andThen, orElse, first, deref,
          Option.isSome_some, domTotal, List.length_cons, pure, Except.pure, bind, Except.bind]
        by_cases hlt : s.n < i.n <;> simp [hlt]
  | some b =>
    cases iri with
    | none =>
      cases shapes with
      | nil => rfl
      | cons s ss =>
        simp only [Option.isSome_some, if_true, bnodeStrategy, Option.isSome_none, Bool.false_eq_true, if_false, andThen,
          first, deref, domTotal, List.length_cons, pure, Except.pure, bind, Except.bind]
        by_cases he : s.n = b.n <;> simp [he]
    | some i =>
      cases shapes with
      | nil => rfl
      | cons s ss =>
        cases ss with
        | nil =>
          simp only [Option.isSome_some, if_true, bnodeStrategy, andThen, first, deref, domTotal, List.length_cons,
            List.length_nil, pure, Except.pure, bind, Except.bind]
          by_cases he : i.n + b.n = s.n <;> simp [he]
        | cons s2 ss2 =>
          simp [bnodeStrategy, andThen, first, deref, domTotal, pure, Except.pure, bind, Except.bind]

theorem sortDesc_ne_nil (l : List Stmt) (h : l ≠ []) : sortDesc l ≠ [] := by
  intro hs
  have := (sortDesc_perm l).length_eq
  rw [hs] at this
  cases l with
  | nil => exact h rfl
  | cons a t => simp at this

/-- a non-empty group fills at least one slot -/
theorem slots_nonempty (g : List Stmt) (h : g ≠ []) :
    ¬ ((slotsOf g).bnode = none ∧ (slotsOf g).iri = none ∧ (slotsOf g).shapes = []) := by
  rintro ⟨hb, hi, hs⟩
  cases g with
  | nil => exact h rfl
  | cons s t =>
    unfold slotsOf at hb hi hs
    simp only [List.getLast?_eq_none_iff] at hb hi
    have hs' : (List.filter (fun s => isShapeType s.ty) (s :: t)) = [] := by
      by_cases hn : List.filter (fun s => isShapeType s.ty) (s :: t) = []
      · exact hn
      · exact absurd hs (sortDesc_ne_nil _ hn)
    have h1 := List.filter_eq_nil_iff.mp hb s (List.mem_cons_self)
    have h2 := List.filter_eq_nil_iff.mp hi s (List.mem_cons_self)
    have h3 := List.filter_eq_nil_iff.mp hs' s (List.mem_cons_self)
    unfold isShapeType at h3
    simp only [Bool.not_eq_true] at h1 h2
    simp [h1, h2] at h3

/-- **C04 (merge stage)**: merging a non-empty group of node-kind constraints never raises, whatever the mix of IRI,
blank-node and shape-reference constraints, their counts and the OR configuration; the value is the model's. -/
theorem merge_never_fails (cfg : Config) (g : List Stmt) (hne : g ≠ []) :
    mergeGroupE cfg g = .ok (mergeGroup cfg g) := by
  rw [mergeGroup_eq_total]
  have hs := strategy_ok (slotsOf g) ((sortDesc g).headD default) (slots_nonempty g hne)
  unfold mergeGroupE
  simp only []
  by_cases hb : (slotsOf g).bnode.isSome = true
  · rw [if_pos hb] at hs ⊢
    rw [hs]; rfl
  · rw [if_neg hb] at hs ⊢
    rw [hs]; rfl

/-- the call site passes `c :: members` -/
theorem groups_are_nonempty (c : Stmt) (mem : List Stmt) : c :: mem ≠ [] := by simp

/-- an IRI + BNode group without shape references, under the variant without the length guard: `IndexError` -/
theorem unguarded_variant_fails :
    errorOf (bnodeStrategyUnguarded (slotsOf [{ prop := "p", types := ["IRI"], card := .exact 1, n := 1 },
                                              { prop := "p", types := ["BNode"], card := .exact 1, n := 1 }]))
      = some (.indexOutOfRange "_shape_constraints[0]") := by decide +kernel

/-- …while the real strategy answers NONLITERAL on the same group -/
example : (mergeGroupE {} [{ prop := "p", types := ["IRI"], card := .exact 1, n := 1 },
                           { prop := "p", types := ["BNode"], card := .exact 1, n := 1 }]).toOption.map (·.types)
      = some ["NONLITERAL"] := by decide +kernel

end Shexer.C04
