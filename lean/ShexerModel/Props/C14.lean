import ShexerModel.Lemmas.R1
import ShexerModel.Model.Text
/-! C14 — inverse paths add incoming-link constraints and leave the rest untouched.

At the level of the counting passes (where all figures originate): the outgoing counts of every
selected node are the same with and without `inverse_paths`, no incoming feature exists without the
option, and the incoming count of a node is the outgoing count of the same node in the graph with
every non-literal triple reversed. -/
namespace Shexer.C14
open Shexer Profiler

/-- the declarative outgoing count does not look at `inverse_paths` -/
theorem outCount_independent (cfg : Config) (b : Bool) (sel : Spec.Selection) (g : Graph) (n p ty : String) :
    Spec.outCount { cfg with inverse := b } sel g n p ty = Spec.outCount cfg sel g n p ty := rfl

/-- **direct part untouched (counts)**: for every selected node the recorded outgoing counts are the
same with `inverse_paths` on and off -/
theorem direct_counts_untouched (cfg : Config) (sel : Spec.Selection) (g : Graph) (n p ty : String)
    (hn : Dict.contains sel n = true) :
    dcount (pass2 { cfg with inverse := true } sel g) n p ty = dcount (pass2 { cfg with inverse := false } sel g) n p ty := by
  rw [dcount_pass2 _ sel g n p ty hn, dcount_pass2 _ sel g n p ty hn]
  rfl

/-- the selection itself does not depend on the option -/
theorem selection_untouched (cfg : Config) (b : Bool) (g : Graph) :
    Tracker.track { cfg with inverse := b } g = Tracker.track cfg g := rfl

/-- hence instance counts do not depend on it either -/
theorem instance_counts_untouched (cfg : Config) (b : Bool) (sel : Spec.Selection) :
    initCounts { cfg with inverse := b } sel = initCounts cfg sel := rfl

/-- without the option no incoming feature is ever recorded -/
theorem no_inverse_without_option (cfg : Config) (sel : Spec.Selection) (g : Graph) (n p ty : String)
    (h : cfg.inverse = false) : icount (pass2 cfg sel g) n p ty = 0 :=
  icount_pass2_noinv cfg sel g n p ty h

/-- reversal of the non-literal, non-instantiation triples (order preserving) -/
def rev (cfg : Config) (g : Graph) : Graph :=
  g.filterMap fun t =>
    if t.p == cfg.instProp then some t
    else if t.o.isNode && t.s.isNode then some { s := t.o, p := t.p, o := t.s }
    else none

theorem sum_filterMap {α β : Type} (l : List α) (f : α → Option β) (h : β → Nat) :
    ((l.filterMap f).map h).sum = (l.map fun a => ((f a).map h).getD 0).sum := by
  induction l with
  | nil => rfl
  | cons a as ih =>
    simp only [List.filterMap_cons, List.map_cons, List.sum_cons]
    cases hf : f a with
    | none => simp [ih]
    | some b => simp [ih]

/-- for an IRI the types contributed as subject of an incoming link and as object of an outgoing
link coincide -/
theorem subjTypes_eq_objTypes_of_iri (cfg : Config) (sel : Spec.Selection) (p : String) (t : Term)
    (hp : (p == cfg.instProp) = false) (ht : t.isIri = true) :
    Spec.subjTypes cfg sel p t = Spec.objTypes cfg sel p t := by
  unfold Spec.subjTypes Spec.objTypes typeOf
  have : (p != cfg.instProp) = true := by simp [bne, hp]
  cases t <;> simp_all [Term.isIri, Gen.IRI_ELEM_TYPE, Gen.BNODE_ELEM_TYPE]

/-- **incoming = outgoing of the reversed graph (counts)**, for graphs with IRI subjects and without
ignored namespaces: the incoming count of `(n, p, ty)` in `g` is the outgoing count in `rev g`, for
every property other than the instantiation property -/
theorem inCount_eq_outCount_rev (cfg : Config) (sel : Spec.Selection) (g : Graph) (n p ty : String)
    (hp : (p == cfg.instProp) = false) (hns : cfg.ignoreNs = none)
    (hiri : ∀ t ∈ g, t.s.isIri = true) :
    Spec.inCount cfg sel g n p ty = Spec.outCount cfg sel (rev cfg g) n p ty := by
  unfold Spec.inCount Spec.outCount Spec.visible
  have hvis : ∀ l : Graph, l.filter (passesFilter cfg) = l := by
    intro l; apply List.filter_eq_self.mpr; intro t _; unfold passesFilter; rw [hns]
  rw [hvis, hvis, ← sum_map_ite, ← sum_map_ite]
  unfold rev
  rw [sum_filterMap]
  apply congrArg
  apply List.map_congr_left
  intro t ht
  have hs := hiri t ht
  have hsn : t.s.isNode = true := by cases hts : t.s <;> simp_all [Term.isNode, Term.isIri]
  by_cases hpi : (t.p == cfg.instProp) = true
  · have hne : (t.p == p) = false := by
      have h1 : t.p = cfg.instProp := by simpa using hpi
      have h2 : ¬ p = cfg.instProp := by simpa using hp
      have : ¬ t.p = p := fun h => h2 (h ▸ h1)
      simpa using this
    have hne' : ¬ t.p = p := by simpa using hne
    simp [hpi, hne, hne']
  · have hpi' : (t.p == cfg.instProp) = false := by simpa using hpi
    by_cases ho : t.o.isNode = true
    · simp only [hpi', Bool.false_eq_true, if_false, ho, hsn, Bool.and_self, if_true, Option.map_some, Option.getD_some,
        Bool.true_and]
      rw [subjTypes_eq_objTypes_of_iri cfg sel p t.s hp hs]
    · have ho' : t.o.isNode = false := by simpa using ho
      simp [hpi', ho']

/- non-vacuity -/
example : rev {} [⟨.iri "a", "p", .iri "b"⟩, ⟨.iri "a", "q", .lit "d"⟩,
    ⟨.iri "a", "http://www.w3.org/1999/02/22-rdf-syntax-ns#type", .iri "C"⟩]
  = [⟨.iri "b", "p", .iri "a"⟩, ⟨.iri "a", "http://www.w3.org/1999/02/22-rdf-syntax-ns#type", .iri "C"⟩] := by decide

/-- **an incoming constraint is written with the key of the outgoing one plus `^`**: the predicate token and every value token of a
statement - the value set `[ex:C]` of the instantiation property included - are those of the same statement in the other direction; only
the `^` differs.  (So `^ rdf:type [ex:rex]` carries the key `rdf:type [ex:rex]` of the reversed graph; a serializer that drops the
brackets for incoming typing arcs changes the key.) -/
theorem written_key_direction_independent (cfg : Config) (ns : Text.Namespaces) (s : Shexer.Stmt) :
    (Text.stmtTokens cfg ns { s with inverse := true }).2 = (Text.stmtTokens cfg ns { s with inverse := false }).2 ∧
    (Text.stmtTokens cfg ns { s with inverse := true }).1 = "^" ∧ (Text.stmtTokens cfg ns { s with inverse := false }).1 = "" := by
  refine ⟨?_, rfl, rfl⟩
  unfold Text.stmtTokens
  have h : Text.valueToken cfg ns { s with inverse := true } = Text.valueToken cfg ns { s with inverse := false } := by
    funext ty
    rfl
  simp only [h]

/-- the value of a constraint on the instantiation property is a value set in both directions, nothing else is -/
theorem value_set_iff_instantiation_property (cfg : Config) (ns : Text.Namespaces) (s : Shexer.Stmt) (ty : String) :
    Text.valueToken cfg ns s ty = (if s.prop == cfg.instProp then "[" ++ (Text.tuneToken ns ty).render ++ "]" else (Text.tuneToken ns ty).render) := rfl

example : Text.valueToken {} [("http://e.org/", "ex")] { prop := "http://www.w3.org/1999/02/22-rdf-syntax-ns#type", types := ["http://e.org/rex"], card := Card.opt, n := 1, inverse := true }
    "http://e.org/rex" = "[ex:rex]" := by decide +kernel

end Shexer.C14
