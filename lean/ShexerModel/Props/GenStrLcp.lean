import ShexerModel.Lemmas.GenStrLcp
/-! # Tie 1, fragment S — `longest_common_prefix` regenerated from /repo is the recursion the C17 model folds

`GeneratedStr.lean` is rewritten by `harness/extract.py` on every run; `GenS.longest_common_prefix` is the translation of
`utils/uri.py:longest_common_prefix`, loop and index expressions included (`PyOps.forRange`, `PyOps.index`).  Obligation of
C17: for **every** pair of strings it raises nothing and equals `MinIri.lcp`, the function `MinIri.fold` / `MinIri.stem` use
and the C17 theorems are about.  A change of the Python function changes the generated definition; if the behaviour
changes the proof no longer checks, if the function leaves the translatable fragment the definition disappears and the file
no longer builds. -/
namespace Shexer.GenStrLcpProps
open Shexer GenStr PyOps

theorem longest_common_prefix_is_model (a b : List Char) : GenS.longest_common_prefix a b = .ok (MinIri.lcp a b) :=
  longest_common_prefix_eq a b

/-- the loop is really run: two IRIs that differ after a common part -/
example : (GenS.longest_common_prefix "http://e.org/a/x1".toList "http://e.org/a/y".toList).toOption = some "http://e.org/a/".toList := by decide +kernel

end Shexer.GenStrLcpProps
