import ShexerModel.Lemmas.GenStrNtTokC
/-! # Tie 1, fragment S — the N-Triples line tokenizer regenerated from /repo is the model's

`GenS.nt_look_for_tokens` and the six `GenS.nt_look_for_*` index scans are the statement-by-statement translation of
`NtTriplesYielder._look_for_tokens` and its helpers (`while` loops over `PyOps.whileFuel`, indices as Python computes them, `IndexError`
where Python raises it).  The hand-written reader model `Model/Nt.lean` - the one `Props/C06.lean` proves the round trip for - works on
suffixes instead.  Obligations of C06 (and of C08, which reads N-Triples through the same class):

* `tokens_is_model` - for **every** line on which the model's tokenizer ends (`Nt.tokens line = some ts`; it has no answer exactly when the
  Python loop never ends: an IRI or a datatype IRI without `>`), the regenerated tokenizer returns the same tokens, without an exception,
  for every fuel of at least `len(line) + 1` rounds.  Together with `C06.reads_the_statement` this makes the round-trip theorem one about the
  tokenizer the code has now.
* `tokens_diverge_is_model` - the other half: on a line for which the model has no answer the regenerated tokenizer runs out of fuel
  **whatever fuel it is given** - the Python loop never ends (agent: GenStrNtTokC).  The two theorems together characterise the regenerated
  tokenizer by `Nt.tokens` on every line.
* `closing_quotes_is_model`, `before_blank_is_model`, `uri_token_is_model`, `literal_token_is_model` - the index each helper returns is the
  position of the last character of the token the model cuts (`Nt.closing`, `Nt.toBlank`, `Nt.toCorner`, `Nt.literalToken`); for the literal
  token `-1` (which restarts the scan for ever) exactly when the model has no answer. -/
namespace Shexer.GenStrNtTokProps
open Shexer PyOps

theorem closing_quotes_is_model (s : List Char) (i fuel : Nat) (hf : s.length + 1 ≤ fuel) :
    GenS.nt_look_for_index_of_closing_quotes fuel s (i : Int) =
      Except.ok (match Nt.closing (s.drop (i + 1)) with
                 | some (content, _) => ((i + 1 + content.length : Nat) : Int)
                 | none => (s.length : Int) - 1) :=
  GenStrNtTok.closing_quotes_eq s i fuel hf

theorem before_blank_is_model (s : List Char) (i fuel : Nat) (c : Char) (hc : s[i]? = some c) (hs : Nt.isSpace c = false) (hh : c ≠ '#')
    (hf : s.length + 1 ≤ fuel) :
    GenS.nt_look_for_last_index_before_blank fuel s (i : Int) =
      Except.ok (((i + (Nt.toBlank (s.drop i)).1.length : Nat) : Int) - 1) :=
  GenStrNtTok.before_blank_eq s i fuel c hc hs hh hf

theorem uri_token_is_model (s : List Char) (i : Nat) (hi : i ≤ s.length) :
    GenS.nt_look_for_last_index_of_uri_token s (i : Int) =
      Except.ok (match Nt.toCorner (s.drop i) with
                 | some (tok, _) => ((i + tok.length : Nat) : Int) - 1
                 | none => (i : Int) - 1) :=
  GenStrNtTok.uri_token_eq s i hi

theorem literal_token_is_model (s : List Char) (i fuel : Nat) (hq : s[i]? = some '"') (hf : s.length + 1 ≤ fuel) :
    GenS.nt_look_for_last_index_of_literal_token fuel s (i : Int) =
      Except.ok (match Nt.literalToken (s.drop (i + 1)) with
                 | some (tok, _) => ((i + tok.length : Nat) : Int) - 1
                 | none => -1) :=
  GenStrNtTok.literal_token_eq s i fuel hq hf

theorem tokens_is_model (line : List Char) (ts : List (List Char)) (h : Nt.tokens line = some ts) (fuel : Nat) (hf : line.length + 1 ≤ fuel) :
    GenS.nt_look_for_tokens fuel line = Except.ok ts :=
  GenStrNtTok.tokens_eq line ts h fuel hf

theorem tokens_diverge_is_model (line : List Char) (h : Nt.tokens line = none) (fuel : Nat) :
    GenS.nt_look_for_tokens fuel line = Except.error PyExc.outOfFuel :=
  GenStrNtTok.tokens_diverges line h fuel

/- non-vacuity: a statement with an awkward literal and a glued dot; a language tag; a line on which Python never returns -/
example : (GenS.nt_look_for_tokens 100 "<http://e/s> <http://e/p> \"a \\\" @x ^^<y> . # \"^^<http://e/dt>.".toList).toOption =
    some ["<http://e/s>".toList, "<http://e/p>".toList, "\"a \\\" @x ^^<y> . # \"^^<http://e/dt>".toList] := by decide +kernel
example : Nt.tokens "<http://e/s> <http://e/p> \"a \\\" @x ^^<y> . # \"^^<http://e/dt>.".toList =
    some ["<http://e/s>".toList, "<http://e/p>".toList, "\"a \\\" @x ^^<y> . # \"^^<http://e/dt>".toList] := by decide +kernel
example : (GenS.nt_look_for_tokens 100 "_:b1 <http://e/p> \"x\"@en-GB.".toList).toOption =
    some ["_:b1".toList, "<http://e/p>".toList, "\"x\"@en-GB".toList] := by decide +kernel
example : (match GenS.nt_look_for_tokens 1000 "<http://e/s> <http://e/p> \"x\"^^<http://e/dt .".toList with
    | .error .outOfFuel => true | _ => false) = true := by decide +kernel
example : Nt.tokens "<http://e/s> <http://e/p> \"x\"^^<http://e/dt .".toList = none := by decide +kernel

end Shexer.GenStrNtTokProps
