import ShexerModel.Lemmas.DeliveryLemmas
import ShexerModel.Props.C06
import ShexerModel.Props.C09
/-! # C08 — the extracted shapes do not depend on how the graph is delivered

Every delivery channel ends in one of four readers that normalise to the same model of terms
(`IRI | BNode`, property, `IRI | BNode | Literal(datatype)`): the N-Triples reader (C06), the streaming Turtle reader
(C07), the TSV reader, and rdflib (external: modelled, not verified — rdflib's parsers are trusted).  Here:

* `tsv_agrees_with_nt` — the TSV reader and the N-Triples reader yield the same triple for every statement (any lexical
  form without a raw tab), namely the triple of the statement;
* `sources_concatenate` — the multi-source reader yields the triples of its sources one after the other and adds up
  their error lines; `files_yield_all_statements` — for N-Triples files, exactly the triples of all statements, for
  every partition of the statements into files;
* `partition_irrelevant_for_figures` — every count and every class size computed from the concatenation of the
  sources is the same for any other partition / order of the same statements (permutation invariance, C09);
* both passes read the same document: in the model `Tracker.track` and `Profiler.pass2` are applied to one graph value
  (`Profiler.run`), so the property reduces to "every channel yields the same list of triples twice", which for the
  line-based readers is the theorems above and for rdflib-parsed files fails for blank nodes (finding F-C19-1).

Compression (gz, xz, zip members) and URL fetching are byte transport: outside the model, decided by the search. -/
namespace Shexer.C08
open Shexer Nt NtGrammar Delivery

theorem tsv_agrees_with_nt (st : NtGrammar.Stmt) (lay : Layout) (lead trail : List Char) (hst : st.Valid) (hlay : lay.Valid)
    (hnt : noTab st) (hend : objEndOk st) (hl : blanks lead) (ht : blanks trail) :
    Tsv.parseLine (renderTsv st lead trail) = Nt.parseLine (render st lay) := by
  rw [tsv_reads_the_statement st lead trail hst hnt hend hl ht, C06.reads_the_statement st lay hst hlay]

theorem sources_concatenate (read : List (List Char) → Except Nt.Err (List Triple × Nat)) (sources : List (List (List Char)))
    (results : List (List Triple × Nat)) (hlen : results.length = sources.length)
    (h : ∀ i (hi : i < sources.length), read sources[i] = .ok (results[i]'(by omega))) :
    Tsv.readSources read sources = .ok ((results.map (·.1)).flatten, (results.map (·.2)).sum) :=
  readSources_concat read sources results hlen h

theorem files_yield_all_statements (files : List (List (NtGrammar.Stmt × Layout))) (h : ∀ f ∈ files, ∀ x ∈ f, x.1.Valid ∧ x.2.Valid) :
    Tsv.readSources Nt.readLines (files.map fun f => f.map fun x => render x.1 x.2)
      = .ok ((files.map fun f => f.map fun x => x.1.triple).flatten, 0) :=
  nt_files files h

/-- two deliveries of the same statements (any partition into files, any order of files and of statements inside them)
give every figure the same value -/
theorem partition_irrelevant_for_figures (cfg : Config) (files files' : List (List Triple))
    (h : files.flatten.Perm files'.flatten) (c : String) (inv : Bool) (p ty : String) (card : Card) :
    Spec.countOver cfg (Spec.selectionOf cfg files.flatten) files.flatten c inv p ty card
      = Spec.countOver cfg (Spec.selectionOf cfg files'.flatten) files'.flatten c inv p ty card :=
  C09.spec_count_perm cfg _ _ h c inv p ty card

theorem partition_irrelevant_for_class_sizes (cfg : Config) (files files' : List (List Triple))
    (h : files.flatten.Perm files'.flatten) (c : String) :
    Spec.classSize (Spec.selectionOf cfg files.flatten) c = Spec.classSize (Spec.selectionOf cfg files'.flatten) c :=
  C09.class_size_perm cfg _ _ h c

end Shexer.C08
