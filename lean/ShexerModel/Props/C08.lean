import ShexerModel.Rdf
namespace Shexer.C08
theorem placeholder : True := trivial
end Shexer.C08
