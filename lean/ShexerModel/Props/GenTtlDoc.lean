import ShexerModel.Lemmas.GenTtlDoc
/-! # Tie 1, fragment S — the streaming Turtle reader assembled from regenerated functions is the reader model, line by line and document by document

`GenTtlDoc.genProcessLine` is `BigTtlTriplesYielder._process_line_2` - clean the line, then: nothing for an empty or a comment line, the prefix
/ base bookkeeping for a directive, the token loop otherwise - and `GenTtlDoc.genReadLines` is `yield_triples` over the lines with its final
"the last statement is not closed" test, both written around the functions regenerated from /repo's Python source (`GenS.ttl_clean_line`,
`GenS.ttl_process_prefix_line`, `GenS.ttl_process_base_line`, and the token loop of `Props/GenTtlReader`).  A regenerated method whose last
statement updates an attribute (`self._prefixes[k] = v`, `self._base = v`) returns the update; the hand-written glue applies it to the model's
state record (`dictSet` = Python's `d[k] = v` on an insertion-ordered dictionary).  Obligations of C07:

* `prefix_line_is_model`, `base_line_is_model` - the two directive parsers (split at blanks, exactly four / three pieces, the last one a dot,
  corners demanded) return the binding / the base the model computes, ValueError otherwise.
* `regenerated_line_is_model` - for every raw line and reader state: same next state, same triples, same exception class as `Ttl.processLine`.
* `regenerated_document_is_model` - for every list of lines: the triples, or the exception class, of `Ttl.readLines`, the function
  `C07.reads_the_body` is about (agent: GenTtlDoc).

Hypotheses, visible in the statements: fuel of at least `len + 1` per line, and `CornersClosed` - in the cleaned line no `<` that starts a scan
position lacks a `>` after it (there the code returns an empty token and fails one step later, the model at once; see `Props/GenStrTtlTok`).
The hypothesis quantifies over every position after a run of blanks, literal contents included, so it is stronger than what the dialect
guarantees (a literal `"a <b"` followed by nothing with `>` violates it): for such documents the tie is the document-by-document
correspondence of the C07 check, as before. -/
namespace Shexer.GenTtlDocProps
open Shexer PyOps Shexer.GenStrTune2 Shexer.GenNtReader Shexer.GenTtlReader Shexer.GenTtlDoc

theorem prefix_line_is_model (d : List (List Char × List Char)) (l : List Char) :
    GenS.ttl_process_prefix_line d l =
      ((match Ttl.splitSpace l with
        | [_, p, ns, dot] =>
          if dot = ['.'] then (Ttl.removeCornersHard ns).map fun ns' => (if Nt.endsWith p ":" then p.dropLast else p, ns')
          else throw (Ttl.Err.valueError "A directive is expected to be alone in its line")
        | _ => throw (Ttl.Err.valueError "A directive is expected to be alone in its line")) : Ttl.M (List Char × List Char)).mapError excOfTtl :=
  process_prefix_line_eq d l

theorem base_line_is_model (b : Option (List Char)) (l : List Char) :
    GenS.ttl_process_base_line b l =
      ((match Ttl.splitSpace l with
        | [_, x, dot] =>
          if dot = ['.'] then Ttl.removeCornersHard x
          else throw (Ttl.Err.valueError "A directive is expected to be alone in its line")
        | _ => throw (Ttl.Err.valueError "A directive is expected to be alone in its line")) : Ttl.M (List Char)).mapError excOfTtl :=
  process_base_line_eq b l

theorem regenerated_line_is_model (resolve : List Char → List Char → List Char) (fuel : Nat) (st : Ttl.St) (raw : List Char)
    (hf : raw.length + 1 ≤ fuel) (hc : CornersClosed raw) :
    (genProcessLine resolve fuel st raw).map (fun r => (r.1, r.2.map tripleOfObjs)) =
      (Ttl.processLine resolve st raw).mapError excOfTtl :=
  genProcessLine_eq resolve fuel st raw hf hc

theorem regenerated_document_is_model (resolve : List Char → List Char → List Char) (fuel : Nat) (lines : List (List Char))
    (hf : ∀ l ∈ lines, l.length + 1 ≤ fuel) (hc : ∀ l ∈ lines, CornersClosed l) :
    (genReadLines resolve fuel lines).map (List.map tripleOfObjs) = (Ttl.readLines resolve lines).mapError excOfTtl :=
  genReadLines_eq resolve fuel lines hf hc

/-- a stand-in for `urljoin` that leaves absolute references alone (the reader resolves a cornered element twice: when it is cut and when it is parsed) -/
def res (b r : List Char) : List Char := if "http".toList.isPrefixOf r then r else b ++ r

/- non-vacuity: a document with a prefix, a base, a statement over two lines and a comment -/
example : ((genReadLines res 80
      ["@prefix ex: <http://e/> .".toList, "@base <http://b/> .".toList, "ex:s ex:p <x> ,  # c".toList, "   \"v\"^^ex:dt .".toList]).map
        (List.map tripleOfObjs)).toOption =
    some [{ s := .iri "http://e/s", p := "http://e/p", o := .iri "http://b/x" },
          { s := .iri "http://e/s", p := "http://e/p", o := .lit "http://e/dt" }] := by decide +kernel
example : (match genReadLines res 80 ["@prefix ex: <http://e/> .".toList, "ex:s ex:p ex:o".toList] with
    | .error .valueError => true | _ => false) = true := by decide +kernel

end Shexer.GenTtlDocProps
