import ShexerModel.Model.Shacl
/-! C11 — ShExC and SHACL outputs state the same constraints.

Both serialisers read the same shape list.  The SHACL side is `Shacl.emit`; its min/max counts and
its node-kind table are *regenerated from the Python AST* on every run
(`Gen.min_occurs_from_cardinality`, `Gen.max_occurs_from_cardinality`, `Gen.MACRO_MAPPING`), and the
theorems below say that they agree with the meaning of the ShExC cardinality / value expression. -/
namespace Shexer.C11
open Shexer Shacl

/-- the interval a ShExC cardinality denotes: `{k}` ↦ k..k, `+` ↦ 1.., `*` ↦ none, `?` ↦ ..1
(an absent cardinality is `{1}`) -/
def interval : Card → Occ × Occ
  | Card.exact k => (Occ.nat k, Occ.nat k)
  | Card.plus => (Occ.nat 1, Occ.none)
  | Card.star => (Occ.none, Occ.none)
  | Card.opt => (Occ.none, Occ.nat 1)

/-- **min/max counts = the ShExC cardinality**, for every cardinality (every `k`) -/
theorem cardinality (c : Card) :
    (Gen.min_occurs_from_cardinality c, Gen.max_occurs_from_cardinality c) = interval c := by
  cases c <;> simp [Gen.min_occurs_from_cardinality, Gen.max_occurs_from_cardinality, interval, Card.asOcc]

/-- no closure symbol is ever written as a count -/
theorem counts_never_garbage (c : Card) :
    Gen.min_occurs_from_cardinality c ≠ Occ.bad ∧ Gen.max_occurs_from_cardinality c ≠ Occ.bad := by
  cases c <;> simp [Gen.min_occurs_from_cardinality, Gen.max_occurs_from_cardinality, Card.asOcc]

/-- the ShExC rendering of a cardinality determines it (so both documents can be read back to the same thing) -/
theorem cardinality_rendering_faithful :
    Gen.cardinality_representation (Card.exact 1) true = "" ∧
    Gen.cardinality_representation Card.plus true = "+" ∧
    Gen.cardinality_representation Card.star true = "*" ∧
    Gen.cardinality_representation Card.opt true = "?" ∧
    ∀ k, k ≠ 1 → Gen.cardinality_representation (Card.exact k) true = "{" ++ toString k ++ "}" := by
  refine ⟨by decide, by decide, by decide, by decide, ?_⟩
  intro k hk
  unfold Gen.cardinality_representation
  simp [hk, Card.pyStr]

/-- **node kinds**: IRI ↦ sh:IRI, blank node ↦ sh:BlankNode, IRI-or-blank-node ↦ sh:BlankNodeOrIRI -/
theorem node_kinds :
    restrictionOf Gen.IRI_ELEM_TYPE = Restriction.nodeKind (Gen.SHACL_NAMESPACE ++ "IRI") ∧
    restrictionOf Gen.BNODE_ELEM_TYPE = Restriction.nodeKind (Gen.SHACL_NAMESPACE ++ "BlankNode") ∧
    restrictionOf Gen.NONLITERAL_ELEM_TYPE = Restriction.nodeKind (Gen.SHACL_NAMESPACE ++ "BlankNodeOrIRI") := by
  decide

/-- a shape reference becomes `sh:node` of the referenced shape's IRI, a datatype `sh:dataType` -/
theorem shape_reference (iri : String) (h : Gen.MACRO_MAPPING.lookup ("%<" ++ iri ++ ">") = none)
    (hs : ("%<" ++ iri ++ ">").startsWith Gen.STARTING_CHAR_FOR_SHAPE_NAME = true) :
    restrictionOf ("%<" ++ iri ++ ">") = Restriction.node (shapeIri ("%<" ++ iri ++ ">")) := by
  unfold restrictionOf
  rw [h]
  simp [hs]

/-- **one node shape per shape** (same IRI, `sh:targetClass` = the class) **and one property shape per
triple constraint**, in the same order, with the same predicate -/
theorem shapes_and_paths (cfg : Config) (shapes : List Shexer.Shape) :
    (emit cfg shapes).map (fun ns => (ns.iri, ns.targetClass, ns.props.map (·.path)))
      = shapes.map (fun sh => (shapeIri sh.name, sh.classUri, sh.stmts.map (·.prop))) := by
  unfold emit
  simp only [List.map_map]
  apply List.map_congr_left
  intro sh _
  simp only [Function.comp, List.map_map]
  congr 2
  apply List.map_congr_left
  intro s _
  simp only [Function.comp]
  unfold propShapeOf
  split <;> rfl

/-- direction: every non-instantiation constraint keeps its direction; min/max are those of its cardinality -/
theorem direction_and_counts (cfg : Config) (s : Shexer.Stmt) (h : (s.prop == cfg.instProp) = false) :
    (propShapeOf cfg s).inverse = s.inverse ∧ ((propShapeOf cfg s).min, (propShapeOf cfg s).max) = interval s.card := by
  unfold propShapeOf
  rw [h]
  exact ⟨rfl, cardinality s.card⟩

/-- the direction of the path is the direction of the constraint for **every** statement, the instantiation property included
(before the repair of `_add_instantiation_constraint` an incoming `^ rdf:type [x]` was written with a direct path) -/
theorem direction_always (cfg : Config) (s : Shexer.Stmt) : (propShapeOf cfg s).inverse = s.inverse := by
  unfold propShapeOf
  split <;> rfl

/-- a disjunction (`disable_or_statements = False`) becomes one `sh:or` whose alternatives are, in order, the restrictions of the
ShExC alternatives - each exactly what a single constraint of that type would get (`restrictionOf`) - with the path, direction and
counts of the statement; a plain constraint gets its single restriction (beyond the property's stated domain, which leaves
disjunctions at their default; covers the repair that replaced the `TypeError`) -/
theorem disjunction_alternatives (cfg : Config) (s : Shexer.Stmt) (h : (s.prop == cfg.instProp) = false) :
    (propShapeOf cfg s).restr = (if s.choice then Restriction.anyOf s.types else restrictionOf s.ty) ∧
    (propShapeOf cfg s).path = s.prop ∧ (propShapeOf cfg s).inverse = s.inverse ∧
    ((propShapeOf cfg s).min, (propShapeOf cfg s).max) = interval s.card := by
  unfold propShapeOf
  rw [h]
  exact ⟨rfl, rfl, rfl, cardinality s.card⟩

/-- instantiation constraints: single allowed class value, counts of the statement's cardinality -/
theorem instantiation_constraint (cfg : Config) (s : Shexer.Stmt) (h : (s.prop == cfg.instProp) = true) :
    (propShapeOf cfg s).restr = Restriction.inValue s.ty ∧ ((propShapeOf cfg s).min, (propShapeOf cfg s).max) = interval s.card := by
  unfold propShapeOf
  rw [h]
  exact ⟨rfl, cardinality s.card⟩

/- non-vacuity -/
example : (Gen.min_occurs_from_cardinality (Card.exact 3), Gen.max_occurs_from_cardinality (Card.exact 3)) = (Occ.nat 3, Occ.nat 3) := by decide
example : restrictionOf "http://www.w3.org/2001/XMLSchema#string" = Restriction.datatype "http://www.w3.org/2001/XMLSchema#string" := by decide +kernel

end Shexer.C11
