import ShexerModel.Lemmas.OptLemmas
/-! # C03 (second part) — the `?` cardinality is sound

With `keep_less_specific` (the default), a constraint printed with `?` is one whose count of instances with *exactly one*
value equals its count of instances with *at least one* (that is the only way `decideBest` lets the exact-one alternative
win against `+`), and both counts are exact (R1): so no instance of the class has two values — for every graph, every
threshold, with or without inverse paths, OR options or `disable_exact_cardinality` (agent-proved `OptLemmas`, 600 lines:
provenance through both merge stages, positivity of profile counts, the `+` sibling of every exact entry).

Together with `Props/C03.lean` this covers the cardinality half of C03 completely: unrelaxed constraints are respected by
every instance, `*` by any number of values, `?` by zero or one.  With `keep_less_specific = false` the claim is false
(`C03.fails_at_keep_less_specific_off`). -/
namespace Shexer.C03opt
open Shexer Shexer.Shexer Profiler

theorem opt_is_sound (cfg : Config) (hc : cfg.cap = 0) (hk : cfg.keepLessSpecific = true) (g : Graph)
    (hnd : ∀ n, (Spec.classesIn (Tracker.track cfg g) n).Nodup)
    (sh : Shape) (hsh : sh ∈ Shexer.run cfg g) (s : Stmt) (hs : s ∈ sh.stmts)
    (hp : s.parts = none) (hch : s.choice = false) (hprop : s.prop ≠ cfg.instProp) (hopt : s.card = Card.opt) :
    ∀ n ∈ (Dict.keys (Tracker.track cfg g)).filter (fun n => (Spec.classesIn (Tracker.track cfg g) n).contains sh.classUri),
      (if s.inverse then Spec.inCount cfg (Tracker.track cfg g) g n s.prop s.ty
       else Spec.outCount cfg (Tracker.track cfg g) g n s.prop s.ty) ≤ 1 :=
  OptSound.opt_is_sound cfg hc hk g hnd sh hsh s hs hp hch hprop hopt

end Shexer.C03opt
