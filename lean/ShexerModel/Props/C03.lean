import ShexerModel.Lemmas.FigureLemmas
import ShexerModel.Spec.ShExSem
/-! C03 — in all-compliant mode every instance conforms to its extracted shape.

FULL STATEMENT (strict domain of the property): for every schema-consistent graph `g`, with
`all_instances_are_compliant_mode`, `keep_less_specific`, threshold 0 and any value of the other
switches, `Spec.allConform cfg (Tracker.track cfg g) g (Shexer.run cfg g) = true`.

Proved here (for *every* graph, no domain restriction):
 * cardinalities of constraints that were not relaxed are respected by every instance
   (`unrelaxed_constraint_respected`): a constraint stays unrelaxed only at 100 %, and by C01b its
   figure is the declarative count, so *all* instances have exactly `k` / at least one such value;
 * a relaxed constraint is `*` (always respected) or `?`, and `?` arises only from cardinality
   exactly 1 with `allow_opt_cardinality` (`opt_only_from_exact_one`);
 * with the mode off no cardinality is rewritten (`mode_off_changes_no_cardinality`).
Not proved (validated by the search on the strict domain): that every *value* matches some
constraint (needs the homogeneity of the strict domain through the node-kind merge) and that `?`
is sound (`Props/C03opt.lean` when present).  Outside the strict domain the statement is false:
three kernel-checked witnesses below, one per root cause named in the property. -/
namespace Shexer.C03
open Shexer Shexer.Shexer Profiler

/-- `*` is respected by any number of values -/
theorem star_always_respected (m : Nat) : Spec.inInterval Card.star m = true := rfl

/-- `?` is produced only with `allow_opt_cardinality` and only from cardinality exactly 1 -/
theorem opt_only_from_exact_one (allowOpt : Bool) (c : Card) (h : Gen.relax_cardinality allowOpt c = Card.opt) :
    allowOpt = true ∧ c = Card.exact 1 := by
  unfold Gen.relax_cardinality at h
  split at h
  · rename_i hc
    simp only [Bool.and_eq_true, beq_iff_eq] at hc
    exact hc
  · cases h

/-- the relaxation never produces anything but `?` / `*` -/
theorem relaxed_is_opt_or_star (allowOpt : Bool) (c : Card) :
    Gen.relax_cardinality allowOpt c = Card.opt ∨ Gen.relax_cardinality allowOpt c = Card.star := by
  unfold Gen.relax_cardinality; split <;> simp

/-- switching the mode off never changes any cardinality (only `disable_exact_cardinality` does) -/
theorem mode_off_changes_no_cardinality (cfg : Config) (N : Nat) (s : Stmt)
    (h : cfg.allCompliant = false) (he : cfg.disableExact = false) : (tuneOne cfg N s).card = s.card := by
  unfold tuneOne
  cases hc : cfg.disableComments <;> simp [h, he]

/-- **constraints at 100 % are respected by every instance**: an ordinary final statement whose count
equals the number of instances was counted for a cardinality `card0` that *every* selected node of
the class satisfies for that property, direction and type (exactly `k` values, or at least one) -/
theorem unrelaxed_constraint_respected (cfg : Config) (hc : cfg.cap = 0) (g : Graph)
    (hnd : ∀ n, (Spec.classesIn (Tracker.track cfg g) n).Nodup)
    (sh : Shape) (hsh : sh ∈ Shexer.run cfg g) (s : Stmt) (hs : s ∈ sh.stmts)
    (hp : s.parts = none) (hch : s.choice = false) (hfull : s.n = sh.nInstances) :
    ∃ card0 : Card,
      (s.card = card0 ∨ s.card = Gen.generalize_cardinality card0
          ∨ s.card = Gen.relax_cardinality cfg.allowOpt card0
          ∨ s.card = Gen.generalize_cardinality (Gen.relax_cardinality cfg.allowOpt card0))
      ∧ ∀ n ∈ (Dict.keys (Tracker.track cfg g)).filter (fun n => (Spec.classesIn (Tracker.track cfg g) n).contains sh.classUri),
          Spec.cardMatches cfg s.prop card0
            (if s.inverse then Spec.inCount cfg (Tracker.track cfg g) g n s.prop s.ty
             else Spec.outCount cfg (Tracker.track cfg g) g n s.prop s.ty) = true := by
  obtain ⟨card0, h1, h2, h3⟩ := line_figure_exact cfg hc g hnd sh hsh s hs hp hch
  refine ⟨card0, h2, ?_⟩
  have heq : Spec.countOver cfg (Tracker.track cfg g) g sh.classUri s.inverse s.prop s.ty card0
      = Spec.classSize (Tracker.track cfg g) sh.classUri := by rw [← h1, hfull, h3]
  unfold Spec.countOver Spec.classSize at heq
  exact List.countP_eq_length.mp heq

/-- ¬ full statement outside the strict domain, root cause 1 (F-C03-1): shape reference chosen on an
instance-count tie — `a` has two values for `p`, only one is a `D` -/
theorem fails_at_shape_ref_tie :
    let T := "http://www.w3.org/1999/02/22-rdf-syntax-ns#type"
    let cfg : Config := { allClasses := true }
    let g : Graph := [⟨.iri "a", T, .iri "C"⟩, ⟨.iri "a", "p", .iri "x"⟩, ⟨.iri "a", "p", .iri "u"⟩, ⟨.iri "x", T, .iri "D"⟩]
    Spec.allConform cfg (Tracker.track cfg g) g (Shexer.run cfg g) = false := by decide +kernel

/-- root cause 2 (F-C03-3 / F-C01-1): the IRI + BNode merge double counts -/
theorem fails_at_nonliteral_merge :
    let T := "http://www.w3.org/1999/02/22-rdf-syntax-ns#type"
    let cfg : Config := { allClasses := true }
    let g : Graph := [⟨.iri "a", T, .iri "C"⟩, ⟨.iri "b", T, .iri "C"⟩,
                      ⟨.iri "a", "q", .iri "x"⟩, ⟨.iri "a", "q", .bnode "_:b1"⟩, ⟨.iri "b", "q", .iri "z"⟩, ⟨.iri "b", "q", .bnode "_:b2"⟩]
    Spec.allConform cfg (Tracker.track cfg g) g (Shexer.run cfg g) = false := by decide +kernel

/-- root cause 3 (F-C03-2): `keep_less_specific = false` emits `?` while another instance has two values -/
theorem fails_at_keep_less_specific_off :
    let T := "http://www.w3.org/1999/02/22-rdf-syntax-ns#type"
    let cfg : Config := { allClasses := true, keepLessSpecific := false }
    let g : Graph := [⟨.iri "a", T, .iri "C"⟩, ⟨.iri "b", T, .iri "C"⟩, ⟨.iri "c", T, .iri "C"⟩,
                      ⟨.iri "a", "p", .lit "d"⟩, ⟨.iri "b", "p", .lit "d"⟩, ⟨.iri "b", "p", .lit "d"⟩]
    Spec.allConform cfg (Tracker.track cfg g) g (Shexer.run cfg g) = false := by decide +kernel

/-- non-vacuity of the positive statement: a schema-consistent graph with a class of three instances,
literal and typed-node values, cardinalities 0..2 — all instances conform -/
theorem conforms_on_example :
    let T := "http://www.w3.org/1999/02/22-rdf-syntax-ns#type"
    let cfg : Config := { allClasses := true }
    let g : Graph := [⟨.iri "a", T, .iri "C"⟩, ⟨.iri "b", T, .iri "C"⟩, ⟨.iri "c", T, .iri "C"⟩, ⟨.iri "x", T, .iri "D"⟩, ⟨.iri "y", T, .iri "D"⟩,
                      ⟨.iri "a", "p", .lit "d"⟩, ⟨.iri "b", "p", .lit "d"⟩, ⟨.iri "b", "p", .lit "e"⟩,
                      ⟨.iri "a", "q", .iri "x"⟩, ⟨.iri "b", "q", .iri "x"⟩, ⟨.iri "b", "q", .iri "y"⟩, ⟨.iri "x", "r", .lit "d"⟩]
    Spec.allConform cfg (Tracker.track cfg g) g (Shexer.run cfg g) = true := by decide +kernel

end Shexer.C03
