import ShexerModel.Lemmas.GenStrPrefixize
/-! # Tie 1, fragment S — the serialiser's prefix choice regenerated from /repo is the model's

`GenS.serializer_prefixize_uri_if_possible` is the translation of `BaseStatementSerializer._prefixize_uri_if_possible` (the
find-first loop over the namespaces dictionary, the dictionary lookup with Python's KeyError, `str.replace`).  Obligations of
C05:

* `prefixize_is_find_and_replace` — for **every** IRI and dictionary it raises nothing, picks the first namespace (dictionary
  order) the IRI is a direct child of, and replaces every occurrence of that namespace by `prefix:`;
* `prefixize_is_model` — when every namespace contains a `/` or `#` (every namespace IRI that ends in one), that is exactly
  `Text.bestNamespace`'s choice printed as `prefix:` + the IRI without the namespace, which is what `Text.tuneToken` - and with it
  `used_prefix_declared`, `label_from_class` of `Props/C05.lean` - assume;
* `replace_all_diverges` — without that hypothesis the code and the model differ (kernel-checked): a namespace without
  separators that occurs again inside the local part (`urn:x:` in `urn:x:rel.urn:x:b`) is replaced twice by `str.replace`, and
  the printed name `u:rel.u:b` no longer denotes the IRI.  Such local names are outside C05's domain
  (`[A-Za-z0-9_-]+` with inner dots); replayed on the implementation in DESIGN 11.4. -/
namespace Shexer.GenStrPrefixizeProps
open Shexer GenStr PyOps

theorem prefixize_is_find_and_replace (uri : List Char) (d : List (List Char × List Char)) :
    GenS.serializer_prefixize_uri_if_possible uri d =
      .ok ((d.find? fun e => PyStr.directChildOf uri e.1).map fun e => PyOps.replace uri e.1 (e.2 ++ [':'])) :=
  serializer_prefixize_eq uri d

theorem prefixize_is_model (ns : Text.Namespaces) (uri : String)
    (hsep : ∀ e ∈ ns, (e.1.toList.contains '/' || e.1.toList.contains '#') = true) :
    GenS.serializer_prefixize_uri_if_possible uri.toList (ns.map fun e => (e.1.toList, e.2.toList)) =
      .ok ((Text.bestNamespace ns uri).map fun e => e.2.toList ++ ':' :: uri.toList.drop e.1.toList.length) :=
  serializer_prefixize_is_bestNamespace ns uri hsep

/-- the hypothesis of `prefixize_is_model` is satisfiable and the function really abbreviates -/
example : (GenS.serializer_prefixize_uri_if_possible "http://e.org/p".toList [("http://x.org/".toList, "x".toList), ("http://e.org/".toList, "e".toList)]).toOption
    = some (some "e:p".toList) := by decide +kernel

/-- without a separator in the namespace the code replaces every occurrence, the model only the leading one -/
theorem replace_all_diverges :
    (GenS.serializer_prefixize_uri_if_possible "urn:x:rel.urn:x:b".toList [("urn:x:".toList, "u".toList)]).toOption = some (some "u:rel.u:b".toList) ∧
    (Text.bestNamespace [("urn:x:", "u")] "urn:x:rel.urn:x:b").map (fun e => e.2.toList ++ ':' :: "urn:x:rel.urn:x:b".toList.drop e.1.toList.length)
      = some "u:rel.urn:x:b".toList := by decide +kernel

end Shexer.GenStrPrefixizeProps
