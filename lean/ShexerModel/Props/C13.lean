import ShexerModel.Lemmas.TuneLemmas
/-! C13 — each option changes only what it documents.

Presentation options `decimals`, `instances_report_mode`, `namespaces_dict` and the output sink are
not inputs of the model at all (`Shexer.run : Config → Graph → List Shape` has no such field): that they
leave shapes, constraints and cardinalities alone is tied by the correspondence, which varies them
while comparing the implementation's structure with this function.  The options that *do* enter
the model are characterised here, at the level of the whole run. -/
namespace Shexer.C13
open Shexer Shexer.Shexer

/-- shapes before the removal of empty ones -/
def pre (cfg : Config) (g : Graph) : List Shape :=
  (((baseShapes cfg (Profiler.run cfg g)).map fun sh => { sh with stmts := sortDesc sh.stmts }).map (setValid cfg))

theorem run_eq (cfg : Config) (g : Graph) : Shexer.run cfg g = cleanEmpty cfg (pre cfg g) := rfl

/-- the relaxation pass is "sort, then rewrite each statement on its own" -/
theorem tune_is_map (cfg : Config) (N : Nat) (l : List Stmt) : tune cfg N l = (sortDesc l).map (tuneOne cfg N) :=
  tune_eq_map cfg N l

/-- ... and the rewriting never touches property, value types, direction, count or choice-ness -/
theorem tune_keeps_skeleton (cfg : Config) (N : Nat) (s : Stmt) :
    (tuneOne cfg N s).prop = s.prop ∧ (tuneOne cfg N s).types = s.types ∧ (tuneOne cfg N s).inverse = s.inverse
    ∧ (tuneOne cfg N s).n = s.n ∧ (tuneOne cfg N s).choice = s.choice :=
  tuneOne_skeleton cfg N s

/-- `all_instances_are_compliant_mode` is the identity on statements all instances have (n = N) -/
theorem relax_id_at_full (cfg : Config) (N : Nat) (s : Stmt) (h : s.n = N) : relax cfg N s = s := by
  unfold relax
  have : Gen.relax_trigger s.n N = false := by unfold Gen.relax_trigger; simp [h]
  simp [this]

/-- ... and below 100 % it only prepends the statement's own figure as a comment and sets the
cardinality to `?` / `*` -/
theorem relax_below_full (cfg : Config) (N : Nat) (s : Stmt) (h : s.n ≠ N) :
    relax cfg N s = { s with comments := commentOf s :: s.comments, card := Gen.relax_cardinality cfg.allowOpt s.card }
    ∧ (Gen.relax_cardinality cfg.allowOpt s.card = Card.opt ∨ Gen.relax_cardinality cfg.allowOpt s.card = Card.star) := by
  unfold relax
  have : Gen.relax_trigger s.n N = true := by unfold Gen.relax_trigger; simp [h]
  refine ⟨by simp [this], ?_⟩
  unfold Gen.relax_cardinality
  split <;> simp

/-- `?` is produced only with `allow_opt_cardinality` and only from cardinality exactly 1 -/
theorem opt_only_from_one (allowOpt : Bool) (c : Card) (h : Gen.relax_cardinality allowOpt c = Card.opt) :
    allowOpt = true ∧ c = Card.exact 1 := by
  unfold Gen.relax_cardinality at h
  split at h
  · rename_i hc
    simp only [Bool.and_eq_true, beq_iff_eq] at hc
    exact hc
  · cases h

/-- `allow_opt_cardinality = False` turns every `?` of the relaxation into `*` and nothing else -/
theorem allow_opt_false (c : Card) : Gen.relax_cardinality false c = Card.star := by
  unfold Gen.relax_cardinality; simp

/-- `disable_exact_cardinality` only replaces `{k}` with `k > 1` by `+` -/
theorem generalize_spec (c : Card) :
    Gen.generalize_cardinality c = match c with
      | Card.exact k => if k > 1 then Card.plus else Card.exact k
      | c => c := by
  unfold Gen.generalize_cardinality
  cases c <;> simp [Card.isInt, Card.exactGt]

def eraseComments : Shape → Stmt → Stmt := fun _ s => { s with comments := [] }
def generalizeStmt : Shape → Stmt → Stmt := fun _ s => generalize s

theorem eraseComments_tp : TyPreserving eraseComments := ⟨fun _ _ => rfl, fun _ _ => rfl, fun _ _ => rfl, fun _ _ => rfl, fun _ _ _ _ _ => rfl⟩
theorem generalizeStmt_tp : TyPreserving generalizeStmt := ⟨fun _ _ => rfl, fun _ _ => rfl, fun _ _ => rfl, fun _ _ => rfl, fun _ _ _ _ _ => rfl⟩

theorem pre_map (a b : Config) (g : Graph) (f : Shape → Stmt → Stmt)
    (hprof : Profiler.run b g = Profiler.run a g) (hbase : ∀ r, baseShapes b r = baseShapes a r)
    (hm : SameMergeCfg b a) (hi : b.inverse = a.inverse)
    (hf : ∀ (sh : Shape) (s : Stmt), tuneOne b sh.nInstances s = f sh (tuneOne a sh.nInstances s))
    (hhdr : ∀ sh sh' s, sh.name = sh'.name → sh.nInstances = sh'.nInstances → f sh s = f sh' s) :
    pre b g = (pre a g).map (mapShape f) := by
  unfold pre
  rw [hprof, hbase, List.map_map, List.map_map, List.map_map]
  apply List.map_congr_left
  intro sh _
  simp only [Function.comp]
  rw [setValid_eq, setValid_eq, validOf_congr b a hm hi, tune_eq_map, tune_eq_map]
  unfold mapShape
  simp only [List.map_map]
  congr 1
  apply List.map_congr_left
  intro s _
  simp only [Function.comp]
  rw [hf]
  exact hhdr _ _ _ rfl rfl

/-- **`disable_comments`** erases the comments of every statement and changes nothing else:
same shapes, same statements in the same order, same cardinalities -/
theorem disable_comments_only_erases (cfg : Config) (g : Graph) :
    Shexer.run { cfg with disableComments := true } g
      = (Shexer.run { cfg with disableComments := false } g).map (mapShape eraseComments) := by
  rw [run_eq, run_eq]
  rw [pre_map { cfg with disableComments := false } { cfg with disableComments := true } g eraseComments rfl (fun _ => rfl)
    ⟨rfl, rfl, rfl, rfl, rfl⟩ rfl
    (by intro sh s; unfold tuneOne eraseComments; cases cfg.allCompliant <;> cases cfg.disableExact <;> rfl)
    (fun _ _ _ _ _ => rfl)]
  rw [cleanEmpty_congr { cfg with disableComments := true } { cfg with disableComments := false } rfl rfl]
  exact cleanEmpty_map _ eraseComments eraseComments_tp _

/-- **`disable_exact_cardinality`** rewrites the cardinality of each final statement by
`{k>1} ↦ +` and changes nothing else (figures stay those of the original cardinality) -/
theorem disable_exact_only_generalizes (cfg : Config) (g : Graph) :
    Shexer.run { cfg with disableExact := true } g
      = (Shexer.run { cfg with disableExact := false } g).map (mapShape generalizeStmt) := by
  rw [run_eq, run_eq]
  rw [pre_map { cfg with disableExact := false } { cfg with disableExact := true } g generalizeStmt rfl (fun _ => rfl)
    ⟨rfl, rfl, rfl, rfl, rfl⟩ rfl
    (by intro sh s; unfold tuneOne generalizeStmt generalize; cases cfg.allCompliant <;> cases cfg.disableComments <;> rfl)
    (fun _ _ _ _ _ => rfl)]
  rw [cleanEmpty_congr { cfg with disableExact := true } { cfg with disableExact := false } rfl rfl]
  exact cleanEmpty_map _ generalizeStmt generalizeStmt_tp _

def relaxStmt (cfg : Config) : Shape → Stmt → Stmt := fun sh s => relax cfg sh.nInstances s

theorem relaxStmt_tp (cfg : Config) : TyPreserving (relaxStmt cfg) :=
  ⟨fun _ _ => relax_ty _ _ _, fun _ s => by unfold relaxStmt relax; split <;> rfl,
   fun _ s => by unfold relaxStmt relax; split <;> rfl, fun _ _ => relax_inverse _ _ _, by
    intro sh sh' s _ h2; unfold relaxStmt; rw [h2]⟩

/-- **`all_instances_are_compliant_mode`** (with comments on and exact cardinalities kept): the run with
the mode on is the run with the mode off with `relax` applied to each statement — identity at 100 %,
otherwise own figure as first comment and cardinality `?` / `*` -/
theorem all_compliant_only_relaxes (cfg : Config) (g : Graph)
    (h1 : cfg.disableExact = false) (h2 : cfg.disableComments = false) :
    Shexer.run { cfg with allCompliant := true } g
      = (Shexer.run { cfg with allCompliant := false } g).map (mapShape (relaxStmt { cfg with allCompliant := false })) := by
  rw [run_eq, run_eq]
  rw [pre_map { cfg with allCompliant := false } { cfg with allCompliant := true } g (relaxStmt { cfg with allCompliant := false })
    rfl (fun _ => rfl) ⟨rfl, rfl, rfl, rfl, rfl⟩ rfl
    (by intro sh s; unfold tuneOne relaxStmt; simp only [h1, h2]; rfl)
    (by intro sh sh' s _ hn; unfold relaxStmt; rw [hn])]
  rw [cleanEmpty_congr { cfg with allCompliant := true } { cfg with allCompliant := false } rfl rfl]
  exact cleanEmpty_map _ _ (relaxStmt_tp _) _

/-- with the mode off no cardinality is touched by the relaxation pass (C03's last sentence): apart
from `disable_exact_cardinality`, the final cardinality is the selected candidate's -/
theorem mode_off_changes_no_cardinality (cfg : Config) (N : Nat) (s : Stmt)
    (h : cfg.allCompliant = false) (he : cfg.disableExact = false) : (tuneOne cfg N s).card = s.card := by
  unfold tuneOne
  cases hc : cfg.disableComments <;> simp [h, he]

/- non-vacuity -/
example : relax {} 3 { prop := "p", types := ["IRI"], card := Card.exact 1, n := 2 }
    = { prop := "p", types := ["IRI"], card := Card.opt, n := 2,
        comments := [{ n := 2, ty := some "IRI", card := Card.exact 1 }] } := by decide
example : relax {} 3 { prop := "p", types := ["IRI"], card := Card.exact 2, n := 2 }
    = { prop := "p", types := ["IRI"], card := Card.star, n := 2,
        comments := [{ n := 2, ty := some "IRI", card := Card.exact 2 }] } := by decide

end Shexer.C13
