import ShexerModel.Model.History
/-! # C18 — results depend only on the arguments, not on output channel or call history

`Model/History.lean` is the `Shaper` object with its three memoised stages and the serializers' line buffer.

* `history_irrelevant` — after **any** sequence of earlier calls (any length, any mix of `shex_graph` in both formats with
  any thresholds and `profile_graph`), a call computes exactly what it computes on a fresh `Shaper`: it honours its own
  threshold and format, repeating a call repeats the result;
* `fresh_is_pipeline` — and that is the pipeline `Shexer.run` of every other theorem, at the call's threshold;
* `stale_variant_differs` — kernel-checked witness that the code before the repair (shapes memoised without their
  threshold) does not have the property: the theorem is carried by the guard that the `fix:` commit added;
* `buffer_lossless` — the line buffer writes every line exactly once, in order, for every buffer capacity and every
  number of lines (string and file are the same sequence of appended pieces): a 5000-line flush boundary loses or
  repeats nothing;
* the remaining clause (constructing a Shaper does not alter other Shapers) has no content in a model of values: it is
  decided by the search (two Shapers sharing the caller's dictionary objects). -/
namespace Shexer.C18
open Shexer History

/-- what every memo field must be once it is filled -/
structure Inv (cfg : Config) (g : Graph) (s : Shaper) : Prop where
  cfg_eq : s.cfg = cfg
  g_eq : s.g = g
  tracked_ok : ∀ t, s.tracked = some t → t = Tracker.track cfg g
  profile_ok : ∀ r, s.profile = some r → r = Profiler.runSel cfg (Tracker.track cfg g) g
  shapes_ok : ∀ n d l, s.shapes = some (n, d, l) →
    l = Shexer.shexClasses { cfg with thNum := n, thDen := d } (Profiler.runSel cfg (Tracker.track cfg g) g)

theorem inv_new (cfg : Config) (g : Graph) : Inv cfg g (new cfg g) :=
  ⟨rfl, rfl, fun _ h => by simp [new] at h, fun _ h => by simp [new] at h, fun _ _ _ h => by simp [new] at h⟩

theorem ensureTracked_spec (cfg : Config) (g : Graph) (s : Shaper) (h : Inv cfg g s) :
    Inv cfg g (ensureTracked s).1 ∧ (ensureTracked s).2 = Tracker.track cfg g ∧
      (ensureTracked s).1.tracked = some (Tracker.track cfg g) ∧ (ensureTracked s).1.profile = s.profile ∧
      (ensureTracked s).1.shapes = s.shapes := by
  unfold ensureTracked
  cases ht : s.tracked with
  | some t =>
    have := h.tracked_ok t ht
    subst this
    exact ⟨h, rfl, ht, rfl, rfl⟩
  | none =>
    refine ⟨⟨h.cfg_eq, h.g_eq, ?_, h.profile_ok, h.shapes_ok⟩, ?_, ?_, rfl, rfl⟩
    · intro t ht'
      simp only [Option.some.injEq] at ht'
      rw [← ht', h.cfg_eq, h.g_eq]
    · simp only [h.cfg_eq, h.g_eq]
    · simp only [h.cfg_eq, h.g_eq]

theorem ensureProfile_spec (cfg : Config) (g : Graph) (s : Shaper) (h : Inv cfg g s) :
    Inv cfg g (ensureProfile s).1 ∧ (ensureProfile s).2 = Profiler.runSel cfg (Tracker.track cfg g) g ∧
      (ensureProfile s).1.shapes = s.shapes := by
  obtain ⟨h1, h2, _, h4, h5⟩ := ensureTracked_spec cfg g s h
  unfold ensureProfile
  simp only []
  cases hp : (ensureTracked s).1.profile with
  | some r =>
    simp only [hp]
    exact ⟨h1, h1.profile_ok r hp, h5⟩
  | none =>
    simp only [hp]
    refine ⟨⟨h1.cfg_eq, h1.g_eq, h1.tracked_ok, ?_, h1.shapes_ok⟩, ?_, h5⟩
    · intro r hr
      simp only [Option.some.injEq] at hr
      rw [← hr, h1.cfg_eq, h1.g_eq, h2]
    · rw [h1.cfg_eq, h1.g_eq, h2]

theorem ensureShapes_spec (cfg : Config) (g : Graph) (s : Shaper) (h : Inv cfg g s) (n d : Nat) :
    Inv cfg g (ensureShapes s n d).1 ∧
      (ensureShapes s n d).2 = Shexer.shexClasses { cfg with thNum := n, thDen := d } (Profiler.runSel cfg (Tracker.track cfg g) g) := by
  obtain ⟨h1, h2, _⟩ := ensureProfile_spec cfg g s h
  unfold ensureShapes
  simp only []
  have fresh : Inv cfg g { (ensureProfile s).1 with shapes := some (n, d, Shexer.shexClasses { (ensureProfile s).1.cfg with thNum := n, thDen := d } (ensureProfile s).2) } ∧
      Shexer.shexClasses { (ensureProfile s).1.cfg with thNum := n, thDen := d } (ensureProfile s).2 =
        Shexer.shexClasses { cfg with thNum := n, thDen := d } (Profiler.runSel cfg (Tracker.track cfg g) g) := by
    refine ⟨⟨h1.cfg_eq, h1.g_eq, h1.tracked_ok, h1.profile_ok, ?_⟩, by rw [h1.cfg_eq, h2]⟩
    intro n' d' l hl
    simp only [Option.some.injEq, Prod.mk.injEq] at hl
    obtain ⟨rfl, rfl, rfl⟩ := hl
    rw [h1.cfg_eq, h2]
  cases hs : (ensureProfile s).1.shapes with
  | none =>
    simp only [hs]
    exact fresh
  | some v =>
    obtain ⟨n', d', l⟩ := v
    simp only [hs]
    by_cases hc : n' = n ∧ d' = d
    · rw [if_pos hc]
      obtain ⟨rfl, rfl⟩ := hc
      exact ⟨h1, h1.shapes_ok _ _ l hs⟩
    · rw [if_neg hc]
      exact fresh

/-- one call keeps the invariant and computes the pure function of its own arguments -/
theorem step_spec (cfg : Config) (g : Graph) (s : Shaper) (h : Inv cfg g s) (op : Op) :
    Inv cfg g (step s op).1 ∧ (step s op).2 = (step (new cfg g) op).2 := by
  cases op with
  | shex fmt n d =>
    obtain ⟨a1, a2⟩ := ensureShapes_spec cfg g s h n d
    obtain ⟨_, b2⟩ := ensureShapes_spec cfg g (new cfg g) (inv_new cfg g) n d
    refine ⟨a1, ?_⟩
    show Out.shapes fmt (ensureShapes s n d).2 = Out.shapes fmt (ensureShapes (new cfg g) n d).2
    rw [a2, b2]
  | profile =>
    obtain ⟨a1, a2, _⟩ := ensureProfile_spec cfg g s h
    obtain ⟨_, b2, _⟩ := ensureProfile_spec cfg g (new cfg g) (inv_new cfg g)
    refine ⟨a1, ?_⟩
    show Out.profile (ensureProfile s).2.profile = Out.profile (ensureProfile (new cfg g)).2.profile
    rw [a2, b2]

theorem inv_runOps (cfg : Config) (g : Graph) (s : Shaper) (h : Inv cfg g s) (ops : List Op) : Inv cfg g (runOps s ops) := by
  induction ops generalizing s with
  | nil => exact h
  | cons op ops ih => exact ih _ (step_spec cfg g s h op).1

/-- **C18 (call history)**: whatever was called before, a call returns what it returns on a fresh `Shaper` -/
theorem history_irrelevant (cfg : Config) (g : Graph) (ops : List Op) (op : Op) :
    (step (runOps (new cfg g) ops) op).2 = (step (new cfg g) op).2 :=
  (step_spec cfg g _ (inv_runOps cfg g _ (inv_new cfg g) ops) op).2

/-- a fresh `shex_graph` is the pipeline at the call's own threshold -/
theorem fresh_is_pipeline (cfg : Config) (g : Graph) (fmt : Fmt) (n d : Nat) :
    (step (new cfg g) (.shex fmt n d)).2 = .shapes fmt (Shexer.run { cfg with thNum := n, thDen := d } g) := by
  obtain ⟨_, b2⟩ := ensureShapes_spec cfg g (new cfg g) (inv_new cfg g) n d
  show Out.shapes fmt (ensureShapes (new cfg g) n d).2 = _
  rw [b2]
  rfl

/-- repeating a call repeats its result -/
theorem repeat_same (cfg : Config) (g : Graph) (ops : List Op) (op : Op) :
    (step (step (runOps (new cfg g) ops) op).1 op).2 = (step (runOps (new cfg g) ops) op).2 := by
  have h := inv_runOps cfg g _ (inv_new cfg g) ops
  rw [(step_spec cfg g _ (step_spec cfg g _ h op).1 op).2, (step_spec cfg g _ h op).2]

/-! ### the variant before the repair does not have the property -/

def wg : Graph :=
  [⟨.iri "a", "http://www.w3.org/1999/02/22-rdf-syntax-ns#type", .iri "C"⟩,
   ⟨.iri "b", "http://www.w3.org/1999/02/22-rdf-syntax-ns#type", .iri "C"⟩,
   ⟨.iri "a", "p", .lit "dt"⟩]

def outStmtCount : Out → Nat
  | .shapes _ l => (l.map fun sh => sh.stmts.length).sum
  | .profile _ => 0

/-- threshold 0 first, then threshold 1: the stale variant still returns the threshold-0 shapes (with the 50 %
constraint), the repaired one drops it -/
theorem stale_variant_differs :
    outStmtCount (stepStale (stepStale (new { allClasses := true } wg) (.shex .shexc 0 1)).1 (.shex .shexc 1 1)).2 = 2 ∧
    outStmtCount (step (step (new { allClasses := true } wg) (.shex .shexc 0 1)).1 (.shex .shexc 1 1)).2 = 1 := by
  decide +kernel

/-! ### the line buffer -/

theorem join_append (a b : List String) : String.join (a ++ b) = String.join a ++ String.join b := by
  induction a with
  | nil =>
    have hnil : String.join ([] : List String) = "" := rfl
    simp only [List.nil_append, hnil, String.empty_append]
  | cons x xs ih => simp only [List.cons_append, String.join_cons, ih, String.append_assoc]

/-- invariant of the buffer: what has been written plus what is buffered is what has been handed in -/
theorem sink_inv (cap : Nat) (lines : List String) (s : Sink) :
    String.join ((lines.foldl (Sink.writeLine cap) s).written) ++ String.join (lines.foldl (Sink.writeLine cap) s).buffer
      = String.join s.written ++ String.join s.buffer ++ String.join lines := by
  induction lines generalizing s with
  | nil =>
    have hnil : String.join ([] : List String) = "" := rfl
    simp only [List.foldl_nil, hnil, String.append_empty]
  | cons x xs ih =>
    rw [List.foldl_cons, ih]
    unfold Sink.writeLine
    simp only []
    have hnil : String.join ([] : List String) = "" := rfl
    have hx : String.join [x] = x := by rw [String.join_cons, hnil, String.append_empty]
    split
    · simp only [join_append, hnil, hx, String.join_cons, String.append_assoc, String.append_empty]
    · simp only [join_append, hnil, hx, String.join_cons, String.append_assoc, String.append_empty]

/-- **C18 (output channel, any length)**: the buffered writer produces exactly the concatenation of the lines, for every
capacity of the buffer and every number of lines -/
theorem buffer_lossless (cap : Nat) (lines : List String) : writeAll cap lines = String.join lines := by
  have hnil : String.join ([] : List String) = "" := rfl
  have h := sink_inv cap lines {}
  simp only [hnil, String.empty_append] at h
  unfold writeAll Sink.flush Sink.content
  have hx : ∀ x : String, String.join [x] = x := fun x => by rw [String.join_cons, hnil, String.append_empty]
  simp only [join_append, hx]
  exact h

end Shexer.C18
