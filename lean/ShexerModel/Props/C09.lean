import ShexerModel.Lemmas.PermLemmas
import ShexerModel.Lemmas.FigureLemmas
/-! C09 — shapes do not depend on statement order (and blank-node labels).

Every figure sheXer prints is an entry of the class profile (C01b), and every entry is a
declarative count (R1).  The declarative counts are sums / counts over filtered lists, hence
invariant under permutation of the document; so is the selection as a set.  Therefore the
*evidence* — which (class, direction, property, type, cardinality) combinations exist and with
which count, and how many instances each class has — is the same for a document and any
permutation of it.  Which of several tied alternatives the merge stages pick depends on
dictionary order (stable sorts): that part is validated, with ties excluded, by the search. -/
namespace Shexer.C09
open Shexer Profiler

/-- the declarative count is order-independent -/
theorem spec_count_perm (cfg : Config) (g g' : Graph) (h : g.Perm g') (c : String) (inv : Bool) (p ty : String) (card : Card) :
    Spec.countOver cfg (Spec.selectionOf cfg g) g c inv p ty card
      = Spec.countOver cfg (Spec.selectionOf cfg g') g' c inv p ty card :=
  Spec.countOver_perm cfg g g' h c inv p ty card

/-- the number of instances of a class is order-independent -/
theorem class_size_perm (cfg : Config) (g g' : Graph) (h : g.Perm g') (c : String) :
    Spec.classSize (Spec.selectionOf cfg g) c = Spec.classSize (Spec.selectionOf cfg g') c :=
  Spec.classSize_perm cfg g g' h c

/-- **evidence is order-independent**: every entry of the class profile and every class count is the
same for a document and for any permutation of it (no cap; no node given the same class twice) -/
theorem evidence_perm (cfg : Config) (hc : cfg.cap = 0) (g g' : Graph) (h : g.Perm g')
    (hnd : ∀ n, (Spec.classesOf cfg g n).Nodup)
    (c : String) (inv : Bool) (p ty : String) (card : Card) (hinv : inv = true → cfg.inverse = true) :
    eget (build cfg (Tracker.track cfg g) (pass2 cfg (Tracker.track cfg g) g)) c inv (p, ty, card)
      = eget (build cfg (Tracker.track cfg g') (pass2 cfg (Tracker.track cfg g') g')) c inv (p, ty, card)
    ∧ cget (initCounts cfg (Tracker.track cfg g)) c = cget (initCounts cfg (Tracker.track cfg g')) c :=
  profile_perm cfg hc g g' h hnd c inv p ty card hinv

/-- the selected nodes are the same set -/
theorem selected_perm (cfg : Config) (g g' : Graph) (h : g.Perm g') (n : String) :
    Spec.isSelected cfg g n = Spec.isSelected cfg g' n := by
  unfold Spec.isSelected
  exact h.any_eq

/-- sorting makes the order of equally frequent statements the only order-dependent ingredient:
a list sorted by count is fixed by the sort (so two inputs that are already in the same order
come out in the same order) -/
theorem sort_fixes_sorted (l : List Shexer.Stmt) (h : Shexer.SortedDesc l) : Shexer.sortDesc l = l :=
  Shexer.sortDesc_of_sorted l h

/- non-vacuity -/
example : Spec.countOver { allClasses := true }
    (Spec.selectionOf { allClasses := true } [⟨.iri "a", "http://www.w3.org/1999/02/22-rdf-syntax-ns#type", .iri "C"⟩, ⟨.iri "a", "p", .iri "x"⟩])
    [⟨.iri "a", "http://www.w3.org/1999/02/22-rdf-syntax-ns#type", .iri "C"⟩, ⟨.iri "a", "p", .iri "x"⟩] "C" false "p" "IRI" Card.plus = 1 := by decide

end Shexer.C09
