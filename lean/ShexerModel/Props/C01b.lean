import ShexerModel.Lemmas.FigureLemmas
/-! C01, part 2 — the figures sheXer prints are the declarative counts, end to end.

`Shexer.run cfg g` is the list of shapes handed to the serialisers; the figure printed on a
constraint line is `s.n` (over `sh.nInstances`), the figures printed in comments are `cm.n`.  For
class targets / all-classes mode without cap, on documents that do not give a node the same class
twice, every such figure — except the NONLITERAL sum (`s.parts ≠ none`, findings F-C01-1/2) and the
figure of a disjunction — is the number of selected nodes of the class with exactly `k` / at least
one value of the stated type for that property and direction.  (The cap is reduced to this case by
C16: `cap_is_restriction`; R1 itself is proved for any selection.) -/
namespace Shexer.C01
open Shexer Shexer.Shexer Profiler

/-- **every figure on a constraint line is exact**; `card0` is the cardinality the figure was counted
for (the line shows it relaxed / generalised when the corresponding options say so — documented) -/
theorem line_figures_exact (cfg : Config) (hc : cfg.cap = 0) (g : Graph)
    (hnd : ∀ n, (Spec.classesIn (Tracker.track cfg g) n).Nodup)
    (sh : Shape) (hsh : sh ∈ Shexer.run cfg g) (s : Stmt) (hs : s ∈ sh.stmts)
    (hp : s.parts = none) (hch : s.choice = false) :
    ∃ card0 : Card,
      s.n = Spec.countOver cfg (Tracker.track cfg g) g sh.classUri s.inverse s.prop s.ty card0
      ∧ (s.card = card0 ∨ s.card = Gen.generalize_cardinality card0
          ∨ s.card = Gen.relax_cardinality cfg.allowOpt card0
          ∨ s.card = Gen.generalize_cardinality (Gen.relax_cardinality cfg.allowOpt card0))
      ∧ sh.nInstances = Spec.classSize (Tracker.track cfg g) sh.classUri :=
  line_figure_exact cfg hc g hnd sh hsh s hs hp hch

/-- **every figure in a comment is exact** (comments about NONLITERAL are the sum, see findings) -/
theorem comment_figures_exact (cfg : Config) (hc : cfg.cap = 0) (g : Graph)
    (hnd : ∀ n, (Spec.classesIn (Tracker.track cfg g) n).Nodup)
    (sh : Shape) (hsh : sh ∈ Shexer.run cfg g) (s : Stmt) (hs : s ∈ sh.stmts)
    (cm : Comment) (hcm : cm ∈ s.comments) (ty : String) (hty : cm.ty = some ty) (hnl : ty ≠ Gen.NONLITERAL_ELEM_TYPE) :
    cm.n = Spec.countOver cfg (Tracker.track cfg g) g sh.classUri s.inverse s.prop ty cm.card :=
  comment_figure_exact cfg hc g hnd sh hsh s hs cm hcm ty hty hnl

/-- **no ratio above 100 %** for every figure that is not a NONLITERAL sum -/
theorem ratio_le_one (cfg : Config) (hc : cfg.cap = 0) (g : Graph)
    (hnd : ∀ n, (Spec.classesIn (Tracker.track cfg g) n).Nodup)
    (sh : Shape) (hsh : sh ∈ Shexer.run cfg g) (s : Stmt) (hs : s ∈ sh.stmts)
    (hp : s.parts = none) (hch : s.choice = false) : s.n ≤ sh.nInstances := by
  obtain ⟨card0, h1, _, h3⟩ := line_figure_exact cfg hc g hnd sh hsh s hs hp hch
  rw [h1, h3]
  unfold Spec.countOver Spec.classSize
  exact List.countP_le_length

/-- the NONLITERAL figure is the sum of the BNode figure and the IRI figure of the same property -
which is why it double-counts instances having both kinds (F-C01-1) -/
theorem nonliteral_is_sum (cfg : Config) (l : List Stmt) (hl : ∀ s ∈ l, Base s) (s : Stmt) (hs : s ∈ selectValid cfg l)
    (nb ni : Nat) (hp : s.parts = some (nb, ni)) :
    ∃ b ∈ l, ∃ i ∈ l, b.ty = Gen.BNODE_ELEM_TYPE ∧ i.ty = Gen.IRI_ELEM_TYPE ∧ b.prop = s.prop ∧ i.prop = s.prop
      ∧ s.n = b.n + i.n := by
  obtain ⟨b, hb, i, hi, h1, h2, h3, h4, h5, h6, h7, _⟩ := selectValid_parts cfg l hl s hs nb ni hp
  exact ⟨b, hb, i, hi, h1, h2, h3, h4, by rw [h7, h5, h6]⟩

/-- ¬ full statement (F-C01-1), kernel-checked on the pinned graph: `b` has an IRI and a blank-node
value for `q`; the model (like the implementation) reports 3 of 3 instances with exactly one
non-literal value, the specification says 1 -/
theorem fails_at_nonliteral_merge :
    let T := "http://www.w3.org/1999/02/22-rdf-syntax-ns#type"
    let cfg : Config := { allClasses := true, allCompliant := false }
    let g : Graph := [⟨.iri "a", T, .iri "C"⟩, ⟨.iri "b", T, .iri "C"⟩, ⟨.iri "c", T, .iri "C"⟩,
                      ⟨.iri "b", "q", .iri "x"⟩, ⟨.iri "b", "q", .bnode "_:b1"⟩, ⟨.iri "c", "q", .iri "z"⟩]
    ((Shexer.run cfg g).flatMap fun sh => sh.stmts.filterMap fun s =>
        if s.ty == "NONLITERAL" then some (s.n, sh.nInstances, s.card) else none) = [(3, 3, Card.exact 1)]
    ∧ Spec.countOverNonlit cfg (Spec.selectionOf cfg g) g "C" false "q" (Card.exact 1) = 1 := by decide +kernel

end Shexer.C01
