import ShexerModel.Lemmas.InverseLemmas
/-! # C14 (second part, run level) — `inverse_paths` leaves the direct constraints untouched

`Props/C14.lean` is about the counts.  Here, for the final shapes (agent-proved `InverseLemmas`): with empty shapes not
removed, the run with `inverse_paths` has the same shapes in the same order with the same instance counts, and the
non-inverse statements of each shape are **exactly** the statements of the run without the option - cardinalities, counts and
comments included; without the option no inverse statement exists.  (With `remove_empty_shapes` the two runs can differ in
which shapes are empty - a shape that only has incoming constraints - and hence in which references survive; that case is
covered by the search.) -/
namespace Shexer.C14b
open Shexer

theorem direct_part_untouched (cfg : Config) (hre : cfg.removeEmpty = false) (g : Graph) :
    (Shexer.run { cfg with inverse := true } g).map
        (fun sh => (sh.name, sh.classUri, sh.nInstances, sh.stmts.filter fun s => !s.inverse))
      = (Shexer.run { cfg with inverse := false } g).map (fun sh => (sh.name, sh.classUri, sh.nInstances, sh.stmts)) :=
  InverseLemmas.direct_part_untouched cfg hre g

theorem no_inverse_statement_without_option (cfg : Config) (h : cfg.inverse = false) (g : Graph)
    (sh : Shexer.Shape) (hsh : sh ∈ Shexer.run cfg g) (s : Shexer.Stmt) (hs : s ∈ sh.stmts) : s.inverse = false :=
  InverseLemmas.no_inverse_statement_without_option cfg h g sh hsh s hs

end Shexer.C14b
