import ShexerModel.Lemmas.MinIriLemmas
import ShexerModel.Lemmas.SelectionLemmas
/-! # C17 — IRI patterns and examples come from the data

`MinIri.stem`, `shapeExample` and `constraintExample` are the model of the longest-common-prefix fold
(`ClassProfiler._annotate_min_iris`, `utils.uri.longest_common_prefix`,
`AnnotateMinIriStrategy._determine_suitable_iri_pattern`) and of the first-seen example bookkeeping
(`ShapeExampleFeaturesDict`).  The theorems are about the instance dictionary the tracker builds from the
document (`Tracker.track cfg g`), for every document and every configuration.

"Neither option changes any constraint" needs no theorem in the model: `detect_minimal_iri` and `examples_mode` are
not inputs of `Shexer.run` at all — the constraint pipeline of the model cannot depend on them.  Whether the
implementation has the same independence is decided by the correspondence check (shapes with and without the
options are compared token by token). -/
namespace Shexer.C17
open Shexer MinIri

/-- **C17 (stem, prefix)**: the stem attached to a shape is a prefix of the IRI of every instance of that shape -/
theorem stem_prefix_of_every_instance (cfg : Config) (g : Graph) (c s : String)
    (h : stem (Tracker.track cfg g) c = some s) :
    ∀ n ∈ instancesOf (Tracker.track cfg g) c, s.toList <+: n.toList :=
  stem_is_common_prefix _ c s h

/-- **C17 (stem, separator)**: it ends at `:`, `/` or `#` -/
theorem stem_ends_at_separator (cfg : Config) (g : Graph) (c s : String)
    (h : stem (Tracker.track cfg g) c = some s) :
    ∃ ch, s.toList.getLast? = some ch ∧ (ch = ':' ∨ ch = '/' ∨ ch = '#') := by
  obtain ⟨ch, h1, h2⟩ := stem_ends_at_sep _ c s h
  refine ⟨ch, h1, ?_⟩
  unfold isSep at h2
  simp only [Bool.or_eq_true, beq_iff_eq] at h2
  rcases h2 with (h2 | h2) | h2
  · exact Or.inl h2
  · exact Or.inr (Or.inl h2)
  · exact Or.inr (Or.inr h2)

/-- **C17 (stem, longest)**: every separator-terminated common prefix of the instance IRIs is at most as long -/
theorem stem_is_longest (cfg : Config) (g : Graph) (c s : String)
    (h : stem (Tracker.track cfg g) c = some s) (p : List Char)
    (hp : ∀ n ∈ instancesOf (Tracker.track cfg g) c, p <+: n.toList)
    (hsep : ∃ ch, p.getLast? = some ch ∧ isSep ch = true) :
    p.length ≤ s.toList.length :=
  stem_longest _ c s h p hp hsep

/-- **C17 (stem, length rules)**: no stem shorter than three characters, none that is just a scheme -/
theorem stem_never_short (cfg : Config) (g : Graph) (c s : String)
    (h : stem (Tracker.track cfg g) c = some s) :
    3 ≤ s.toList.length ∧ s ≠ "http://" ∧ s ≠ "https://" :=
  stem_not_short _ c s h

/-- a printed stem implies the class has an instance (no stem out of nothing) -/
theorem stem_needs_instance (cfg : Config) (g : Graph) (c s : String)
    (h : stem (Tracker.track cfg g) c = some s) : instancesOf (Tracker.track cfg g) c ≠ [] := by
  unfold stem at h
  split at h
  · rename_i l hl
    exact (fold_is_lcp _ c l hl).2.2
  · exact absurd h (by simp)

/-- **C17 (shape example)**: the example shown for a shape is one of its instances -/
theorem shape_example_is_instance (cfg : Config) (g : Graph) (c n : String)
    (h : shapeExample (Tracker.track cfg g) c = some n) : n ∈ instancesOf (Tracker.track cfg g) c :=
  shapeExample_is_instance _ c n h

/-- **C17 (constraint example)**: the example shown for a constraint is the value of a triple of the document with
that property whose subject (object, in the inverse direction) is an instance of the shape -/
theorem constraint_example_is_value (cfg : Config) (g : Graph) (c : String) (inv : Bool) (p : String) (v : Term)
    (h : constraintExample cfg (Tracker.track cfg g) g c inv p = some v) :
    ∃ t ∈ g, t.p = p ∧
      (if inv then t.s = v ∧ ((Dict.get? (Tracker.track cfg g) t.o.key).getD []).contains c = true
       else t.o = v ∧ ((Dict.get? (Tracker.track cfg g) t.s.key).getD []).contains c = true) :=
  constraintExample_is_value cfg _ g c inv p v h

/-! ### non-vacuity: concrete dictionaries on which the hypotheses hold -/

/-- two namespaces sharing a path segment: the stem stops at the last shared separator -/
example : stem [("http://example.org/people/staff#a1", ["C"]), ("http://example.org/people/it7", ["C"])] "C"
    = some "http://example.org/people/" := by decide +kernel

/-- only the scheme is shared: nothing is printed -/
example : stem [("http://a.org/x", ["C"]), ("http://b.org/x", ["C"])] "C" = none := by decide +kernel

/-- a namespace that is a string prefix of the other local names: cut back to the separator, not to the common letters -/
example : stem [("http://example.org/p1", ["C"]), ("http://example.org/people/q", ["C"])] "C"
    = some "http://example.org/" := by decide +kernel

example : shapeExample [("x", ["D"]), ("y", ["C", "D"]), ("z", ["C"])] "C" = some "y" := by decide +kernel

end Shexer.C17
