import ShexerModel.Lemmas.GenNtReader
import ShexerModel.Props.C06
/-! # Tie 1, fragment S — the N-Triples reader assembled from regenerated functions is the reader model, and reads every valid statement

`GenNtReader.genParseLine` is one round of `NtTriplesYielder.yield_triples` - strip the line, cut it into tokens, count an error line unless there
are exactly three, otherwise build subject, predicate and object - with the functions regenerated from /repo's Python source in the places of
the calls (`GenS.nt_look_for_tokens`, `GenS.tune_token`, `GenS.tune_prop`; the five lines of glue around them are written by hand and tied, like
the model, by the line-by-line correspondence of the C06 check).  Obligations of C06:

* `regenerated_reader_is_model` - for **every** line and every fuel of at least `len + 1`: the triple read (its kinds, IRIs, labels, datatype),
  "error line", the exception class, or non-termination (out of fuel) are those of the hand-written model `Nt.parseLine` (agent: GenNtReader).
* `regenerated_reader_reads_the_statement` - hence the round-trip theorem of `Props/C06.lean` holds of the regenerated reader: every valid
  statement of the N-Triples grammar `Spec/NtGrammar`, in every valid layout, is read as exactly its triple, whatever `float()` and `urljoin`
  do (they are not consulted) - the statement C06 makes, about the code as it is now. -/
namespace Shexer.GenNtReaderProps
open Shexer PyOps Shexer.GenStrTune2 Shexer.GenNtReader NtGrammar

theorem regenerated_reader_is_model (resolve : List Char → List Char → List Char) (floatOf : List Char → Option Bool) (fuel : Nat) (line : List Char)
    (hf : line.length + 1 ≤ fuel) :
    (genParseLine resolve floatOf fuel line).map (Option.map tripleOfObjs) = (Nt.parseLine line).mapError excOfNt :=
  genParseLine_eq resolve floatOf fuel line hf

theorem regenerated_reader_reads_the_statement (resolve : List Char → List Char → List Char) (floatOf : List Char → Option Bool)
    (st : Stmt) (lay : Layout) (hst : st.Valid) (hl : lay.Valid) (fuel : Nat) (hf : (render st lay).length + 1 ≤ fuel) :
    (genParseLine resolve floatOf fuel (render st lay)).map (Option.map tripleOfObjs) = Except.ok (some st.triple) := by
  rw [genParseLine_eq resolve floatOf fuel _ hf, C06.reads_the_statement st lay hst hl]
  rfl

/- non-vacuity: the adversarial statement of Props/C06 through the regenerated reader -/
example : ((genParseLine (fun _ r => r) (fun _ => none) 200 (render C06.advStmt C06.advLayout)).map (Option.map tripleOfObjs)).toOption
    = some (some C06.advStmt.triple) := by decide +kernel

end Shexer.GenNtReaderProps
