import ShexerModel.Lemmas.RenameLemmas
/-! # C09 (second part) — blank-node labels are irrelevant

`labels_irrelevant`: for a renaming `σ` of blank-node labels that is injective on the labels of the graph, when labels (old
and new) are recognisable as labels - some test holds for every label and renamed label and fails for every IRI in node
position and for the empty string, e.g. "starts with `_:`", which is how the readers spell them - and classes are IRIs, the
extracted shapes are **identical** (`Shexer.run`, the whole value: shapes, order, constraints, counts, comments), for every
configuration including caps, targets, ignored namespaces and inverse paths (agent-proved `RenameLemmas`: the tracker, the
feature pass and the profile build commute with an injective key map).

The sorting hypothesis is necessary in the model: both passes key their dictionaries by the bare text of the node, so a blank
node and an IRI with the same text are one key (`run_rename_refuted`, kernel-checked), and the key of a literal is the empty
string (`run_rename_hdisj_insufficient`).  In the implementation labels carry `_:` and IRIs do not. -/
namespace Shexer.C09b
open Shexer Rename

theorem labels_irrelevant (cfg : Config) (g : Graph) (σ : String → String) (isLabel : String → Bool)
    (hinj : ∀ a ∈ bnodeLabels g, ∀ b ∈ bnodeLabels g, σ a = σ b → a = b)
    (hcls : ∀ t ∈ g, t.p = cfg.instProp → t.o.isIri = true ∧
      (cfg.inverse = true → t.s.isIri = true ∨ Spec.isSelected cfg g t.o.key = false))
    (hlab : ∀ b ∈ bnodeLabels g, isLabel b = true ∧ isLabel (σ b) = true)
    (hiri : ∀ i ∈ iriKeys g, isLabel i = false) (hempty : isLabel "" = false) :
    Shexer.run cfg (g.map (renameTriple σ)) = Shexer.run cfg g :=
  run_rename_sorted cfg g σ isLabel hinj hcls hlab hiri hempty

theorem same_text_collides : ¬ ∀ (cfg : Config) (g : Graph) (σ : String → String),
    (∀ a ∈ bnodeLabels g, ∀ b ∈ bnodeLabels g, σ a = σ b → a = b) →
    (∀ b ∈ bnodeLabels g, σ b ∉ iriKeys g) →
    (∀ t ∈ g, t.p = cfg.instProp → t.o.isIri = true ∧
      (cfg.inverse = true → t.s.isIri = true ∨ Spec.isSelected cfg g t.o.key = false)) →
    Shexer.run cfg (g.map (renameTriple σ)) = Shexer.run cfg g :=
  run_rename_refuted

end Shexer.C09b
