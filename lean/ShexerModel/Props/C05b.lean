import ShexerModel.Lemmas.CloseLemmas
/-! # C05 (second part) — every shape reference names a shape that is defined; one shape per class

Machine-checked facts about the final list of shapes `Shexer.run cfg g`, for every document and configuration:

* `one_shape_per_class` — no class gets two shapes;
* `references_closed_partial` — a statement whose type is a shape reference names a shape of the final list, also after
  the removal of empty shapes (`remove_empty_shapes`), under the hypothesis that no datatype / node kind of the
  document itself begins with the shape-reference marker (the full statement is false of the model without it — a
  literal typed `<@x>` is indistinguishable from a reference — see `Lemmas/CloseLemmas.lean`);
* `no_empty_shape_left` — with `remove_empty_shapes` no shape of the result is empty;
* `removal_dangling_refuted` — the list-level removal alone, on arbitrary shape lists, is *not* closed: the
  kernel-checked counterexample has an inverse statement under `inverse_paths = false`; `Shexer.run` never produces
  such a list (`pre_inverse`), which is exactly the extra hypothesis of the proved variant. -/
namespace Shexer.C05b
open Shexer Profiler

theorem one_shape_per_class (cfg : Config) (g : Graph) : ((Shexer.run cfg g).map (·.classUri)).Nodup :=
  run_classes_nodup cfg g

theorem references_closed_partial (cfg : Config) (hns : cfg.shapesNs = "http://weso.es/shapes/") (g : Graph)
    (hdt : ∀ t ∈ g, (typeOf cfg t.p t.o).startsWith Gen.STARTING_CHAR_FOR_SHAPE_NAME = false ∧
      (typeOf cfg t.p t.s).startsWith Gen.STARTING_CHAR_FOR_SHAPE_NAME = false)
    (sh : Shape) (hsh : sh ∈ Shexer.run cfg g) (s : Stmt) (hs : s ∈ sh.stmts)
    (href : s.ty.startsWith Gen.STARTING_CHAR_FOR_SHAPE_NAME = true) :
    s.ty ∈ names (Shexer.run cfg g) :=
  run_closed_partial cfg hns g hdt sh hsh s hs href

theorem no_empty_shape_left (cfg : Config) (h : cfg.removeEmpty = true) (g : Graph) (sh : Shape)
    (hsh : sh ∈ Shexer.run cfg g) : sh.stmts ≠ [] := by
  rw [run_eq_clean_pre] at hsh
  exact cleanEmpty_no_empty cfg h _ sh hsh

theorem removal_dangling_refuted :
    ¬ (∀ (cfg : Config) (shapes : List Shape) (sh : Shape), sh ∈ cleanEmpty cfg shapes →
        ∀ s ∈ sh.stmts, s.ty ∈ names shapes → s.ty ∈ names (cleanEmpty cfg shapes)) :=
  cleanEmpty_no_dangling_refuted

end Shexer.C05b
