import ShexerModel.Lemmas.SelectionLemmas
import ShexerModel.Lemmas.R1
import ShexerModel.Model.Targets
/-! C10 — shapes are computed from exactly the nodes the user selected.

Class targets / all-classes mode: pass 1 *is* the declarative selection, as a list
(`track_eq_selectionOf`).  Shape maps: the selection is `Targets.trackItems` of the evaluated
selectors; R1 is parametric in the selection, so all figures are exact for whatever the
selectors denote. -/
namespace Shexer.C10
open Shexer Profiler

/-- **class targets / all-classes mode**: the instance dictionary is the declarative selection —
exactly the subjects linked to a target class (any class, in all-classes mode) by the configured
instantiation property, in first-occurrence order, each with its classes in document order -/
theorem class_targets_selection (cfg : Config) (hc : cfg.cap = 0) (g : Graph) :
    Tracker.track cfg g = Spec.selectionOf cfg g :=
  Tracker.track_eq_selectionOf cfg hc g

/-- which triples select: the predicate must be the configured instantiation property — so with a
non-default instantiation property `rdf:type` triples select nothing -/
theorem only_inst_prop_selects (cfg : Config) (t : Triple) (h : Spec.selects cfg t = true) : t.p = cfg.instProp := by
  unfold Spec.selects Tracker.innerRelevant at h
  by_cases hall : cfg.allClasses = true
  · simpa [hall] using h
  · have : cfg.allClasses = false := by simpa using hall
    cases ht : cfg.targets <;> simp_all

/-- in target-classes mode the object must be one of the targets, as an IRI -/
theorem target_mode_selects (cfg : Config) (ts : List String) (t : Triple)
    (hall : cfg.allClasses = false) (ht : cfg.targets = some ts) :
    Spec.selects cfg t = (t.p == cfg.instProp && t.o.isIri && ts.contains t.o.key) := by
  unfold Spec.selects Tracker.innerRelevant
  simp [hall, ht]

/-- `rdf:type` is an ordinary property under a custom instantiation property: its objects are typed
by node kind like those of any other property -/
theorem rdf_type_ordinary (cfg : Config) (h : ("http://www.w3.org/1999/02/22-rdf-syntax-ns#type" == cfg.instProp) = false) (o : String) :
    typeOf cfg "http://www.w3.org/1999/02/22-rdf-syntax-ns#type" (Term.iri o) = Gen.IRI_ELEM_TYPE := by
  unfold typeOf
  simp [bne, h]

/-- **node selectors** denote the single node, whether or not it occurs in the graph -/
theorem node_selector (g : Graph) (iri : String) : Targets.evalSelector g (Targets.Selector.node iri) = [iri] := rfl

/-- **`{FOCUS p o}`** returns exactly the subjects of the triples with predicate `p` and object `o`
(one row per triple), **`{FOCUS p _}`** those of all triples with predicate `p` -/
theorem focus_subject (g : Graph) (p : String) (o : Targets.Pos) (n : String) (ho : o ≠ Targets.Pos.focus) :
    n ∈ Targets.evalSelector g (Targets.Selector.pattern Targets.Pos.focus p o) ↔
      ∃ t ∈ g, t.p = p ∧ Targets.posMatches o t.o = true ∧ t.s.key = n := by
  unfold Targets.evalSelector
  simp only [List.mem_map, List.mem_filter, Bool.and_eq_true, beq_iff_eq]
  constructor
  · rintro ⟨t, ⟨ht, ⟨_, hp⟩, hm⟩, hk⟩
    exact ⟨t, ht, hp, hm, by simpa using hk⟩
  · rintro ⟨t, ht, hp, hm, hk⟩
    exact ⟨t, ⟨ht, ⟨by simp [Targets.posMatches], hp⟩, hm⟩, by simpa using hk⟩

/-- **`{s p FOCUS}`** returns the objects -/
theorem focus_object (g : Graph) (p : String) (s : Targets.Pos) (n : String) (hs : s ≠ Targets.Pos.focus) :
    n ∈ Targets.evalSelector g (Targets.Selector.pattern s p Targets.Pos.focus) ↔
      ∃ t ∈ g, t.p = p ∧ Targets.posMatches s t.s = true ∧ t.o.key = n := by
  unfold Targets.evalSelector
  simp only [List.mem_map, List.mem_filter, Bool.and_eq_true, beq_iff_eq]
  constructor
  · rintro ⟨t, ⟨ht, ⟨hm, hp⟩, _⟩, hk⟩
    rw [if_neg hs] at hk
    exact ⟨t, ht, hp, hm, hk⟩
  · rintro ⟨t, ht, hp, hm, hk⟩
    refine ⟨t, ⟨ht, ⟨hm, hp⟩, by simp [Targets.posMatches]⟩, ?_⟩
    rw [if_neg hs]
    exact hk

/-- a node returned several times by one item receives the item's label once -/
theorem label_once (nodes : List String) (label : String) (d : Tracker.InstDict) (n : String)
    (h : ((Dict.get? d n).getD []).count label ≤ 1) :
    ((Dict.get? (nodes.foldl (fun d n => Dict.upd d n fun o => let l := o.getD []; if l.contains label then l else l ++ [label]) d) n).getD []).count label ≤ 1 := by
  induction nodes generalizing d with
  | nil => exact h
  | cons x xs ih =>
    simp only [List.foldl_cons]
    apply ih
    rw [Dict.get?_upd]
    by_cases hx : x = n
    · subst hx
      simp only [if_true, Option.getD_some]
      by_cases hc : ((Dict.get? d x).getD []).contains label = true
      · simp only [hc, if_true]; exact h
      · have hc' : ((Dict.get? d x).getD []).contains label = false := by simpa using hc
        simp only [hc', Bool.false_eq_true, if_false, List.count_append]
        have : label ∉ (Dict.get? d x).getD [] := by simpa using hc'
        simp [List.count_eq_zero_of_not_mem this]
    · simp only [hx, if_false]; exact h

/-- **figures are exact for whatever the selectors denote** (R1 for an arbitrary selection) -/
theorem figures_exact_for_selection (cfg : Config) (sel : Spec.Selection) (hw : Dict.WF sel)
    (hnd : ∀ n, (Spec.classesIn sel n).Nodup) (g : Graph)
    (c : String) (inv : Bool) (p ty : String) (card : Card) (hinv : inv = true → cfg.inverse = true) :
    eget (build cfg sel (pass2 cfg sel g)) c inv (p, ty, card) = Spec.countOver cfg sel g c inv p ty card
    ∧ cget (initCounts cfg sel) c = Spec.classSize sel c :=
  ⟨profile_exact cfg sel hw g hnd c inv p ty card hinv, count_exact cfg sel hw hnd c⟩

/- TESTS (evaluated by the compiler, not theorems): the string-level parsers on the grammar of the property -/
#guard Targets.parseSelector [("ex", "http://e/")] "{FOCUS ex:p _}" ==
    Targets.Selector.pattern Targets.Pos.focus "http://e/p" Targets.Pos.wildcard
#guard Targets.parseSelector [("ex", "http://e/")] "{ <http://e/s>  a   FOCUS }" ==
    Targets.Selector.pattern (Targets.Pos.term "http://e/s") "http://www.w3.org/1999/02/22-rdf-syntax-ns#type" Targets.Pos.focus
#guard Targets.parseSelector [("ex", "http://e/")] "ex:n1" == Targets.Selector.node "http://e/n1"
#guard Targets.parseLabel [("ex", "http://e/")] "ex:S" == some "%http://e/S"
-- (tests, not theorems) a local name may contain ':' - the label is cut at the FIRST colon only; an unknown prefix is an error
#guard Targets.parseLabel [("ex", "http://e/")] "ex:Person:adult" == some "%http://e/Person:adult"
#guard Targets.parseLabel [("ex", "http://e/")] "zz:S" == none
#guard Targets.splitFixedLine "  <http://e/n>@<http://e/S>, " == some (some ("<http://e/n>", "<http://e/S>"))

/- non-vacuity of the selector theorems -/
example : Targets.evalSelector [⟨.iri "a", "p", .iri "b"⟩, ⟨.iri "a", "p", .lit "d"⟩, ⟨.iri "c", "q", .iri "b"⟩]
    (Targets.Selector.pattern Targets.Pos.focus "p" Targets.Pos.wildcard) = ["a", "a"] := by decide
example : Targets.trackItems [(["a", "a", "b"], "S")] = [("a", ["S"]), ("b", ["S"])] := by decide

end Shexer.C10
