"""C05 — produced schemas are well-formed and closed.

proof : Props/C05.lean
tie   : ordered correspondence of the canonical shapes (labels, references)
search: strict re-parse of the emitted ShExC (harness parser), prefix map, labels, references;
        SHACL parsed as Turtle by rdflib, sh:node targets, paths
"""
import random, json, re
from common import *
import gen, pipeline, model, impl, shex_text, shacl_text, findings as F, oracle
from props import base
from shexer import consts as C

PROPS_MODULES = ["ShexerModel.Props.C05", "ShexerModel.Props.C05b", "ShexerModel.Props.GenStrShapeName", "ShexerModel.Props.GenStrPrefixize", "ShexerModel.Props.GenStrTune"]
DEPS = ["S.build_shapes_name_for_class_uri", "S.serializer_prefixize_uri_if_possible"]
replay = base.replay

COLLIDING = ['', 'weso-s', 'shapes', 'w-shapes']


def gen_case(rng):
    ip = rng.choice([RDF_TYPE, RDF_TYPE, EX + 'inst'])
    g = gen.gen_graph(rng, inst_prop=ip) if rng.random() < 0.6 else gen.gen_schema_graph(rng, inst_prop=ip)
    if rng.random() < 0.3:
        # local names with inner dots / dashes / underscores
        ren = lambda t: (t[0], t[1].replace(EX + 'n', EX + 'n.v-').replace(EX + 'C', EX + 'Cls_')) if t[0] == 'I' else t
        g = [(ren(s), p, ren(o)) for s, p, o in g]
    cfg = gen.gen_cfg(rng, g, inst_prop=ip, presentation=True)
    cfg['disable_comments'] = rng.random() < 0.3
    nsd = dict(DEFAULT_NS)
    r = rng.random()
    if r < 0.5:
        taken = rng.sample(COLLIDING, rng.randint(1, 4))
        for k, p in enumerate(taken):
            nsd['http://taken%d.example/' % k] = p
    elif r < 0.6:
        nsd = {}
    cfg['ns_dict'] = nsd
    if rng.random() < 0.25:
        cfg['shapes_ns'] = rng.choice(['http://shapes.example/', 'http://example.org/shapes#', EX])
    return g, cfg


def gen_chain_case(rng):
    """a chain of shapes A0 -> A1 -> ... -> Ak in which only the reference to the next class survives the
    threshold and the last class has no surviving feature: removing empty shapes must cascade"""
    k = rng.randint(2, 4)
    g = []
    for i in range(k + 1):
        for j in range(2):
            node = I('c%d_%d' % (i, j))
            g.append((node, RDF_TYPE, I('K%d' % i)))
            if i < k:
                g.append((node, EX + 'next', I('c%d_%d' % (i + 1, rng.randint(0, 1)))))
            g.append((node, EX + 'own%d_%d' % (i, j), L('v')))      # a feature only half of the instances have
    rng.shuffle(g)
    cfg = gen.default_cfg()
    cfg['ignore_ns'] = [RDF]
    cfg['th'] = rng.choice([(3, 5), (1, 1), (2, 3)])
    cfg['remove_empty'] = rng.random() < 0.85
    cfg['inverse'] = rng.random() < 0.3
    cfg['all_compliant'] = rng.random() < 0.5
    return g, cfg


def gen_fan_case(rng):
    """one surviving shape whose property points to instances of SEVERAL classes that have no feature at all (their only
    triples are instantiation triples in an ignored namespace): every reference must go when the empty shapes go"""
    k = rng.randint(2, 4)
    g = []
    empties = []
    for i in range(k):
        for j in range(rng.randint(1, 2)):
            n = I('e%d_%d' % (i, j))
            g.append((n, RDF_TYPE, I('E%d' % i)))
            empties.append(n)
    for j in range(rng.randint(1, 3)):
        it = I('item%d' % j)
        g.append((it, RDF_TYPE, I('Item')))
        g.append((it, EX + 'title', L('t%d' % j)))
        for n in rng.sample(empties, rng.randint(2, len(empties))):
            g.append((it, EX + 'marks', n))
        if rng.random() < 0.5:
            g.append((it, EX + 'flags', rng.choice(empties)))
    rng.shuffle(g)
    cfg = gen.default_cfg()
    cfg['ignore_ns'] = [RDF]
    cfg['remove_empty'] = True
    cfg['inverse'] = rng.random() < 0.2
    cfg['th'] = rng.choice([(0, 1), (1, 2)])
    if rng.random() < 0.4:
        cfg['target_mode'] = 'classes'
        cfg['targets'] = [EX + 'Item'] + [EX + 'E%d' % i for i in range(k)]
    return g, cfg


def strip_comment(line):
    """the line without its ShExC comment: `#` opens one unless it is inside <...> or a quoted string"""
    in_iri = in_str = False
    for k, ch in enumerate(line):
        if in_str:
            in_str = ch != '"' or (k > 0 and line[k - 1] == '\\')
        elif in_iri:
            in_iri = ch != '>'
        elif ch == '<':
            in_iri = True
        elif ch == '"':
            in_str = True
        elif ch == '#':
            return line[:k]
    return line


def missing_separators(text):
    """triple constraints of one shape are separated by `;` - outside comments: -> the constraint lines that lack it"""
    bad, body = [], None
    for line in text.split("\n"):
        code = strip_comment(line).strip()
        if code == '{':
            body = []
        elif code.startswith('}'):
            if body:
                bad += [l_ for l_ in body[:-1] if not l_.endswith(';')]
            body = None
        elif body is not None and code:
            body.append(code)
    return bad


def check_shexc(text, g, cfg, kf, reproduced, viol):
    try:
        parsed = shex_text.parse(text)
    except shex_text.ShexParseError as e:
        viol.append({"what": "emitted ShExC does not parse: %s" % e, "shexc": text, **pipeline.case_json(g, cfg)})
        return None
    lack = missing_separators(text)
    if lack:
        viol.append({"what": "emitted ShExC does not parse: %d triple constraint(s) followed by another one without a `;` outside comments, e.g. %r" % (len(lack), lack[0]),
                     "shexc": text, **pipeline.case_json(g, cfg)})
    # prefix map: functional, no prefix declared twice
    seen = {}
    for p, ns in parsed['prefixes']:
        if p in seen:
            viol.append({"what": "prefix %r declared twice (%s, %s)" % (p, seen[p], ns), "shexc": text, **pipeline.case_json(g, cfg)})
        seen[p] = ns
    labels = [sh['label'] for sh in parsed['shapes']]
    if len(labels) != len(set(labels)):
        obs = {"kind": "duplicate_label", "labels": labels, "cfg": cfg, "triples": g}
        fid = F.match(kf, obs)
        if fid:
            reproduced.add(fid)
        else:
            viol.append({"what": "shape label defined more than once", "labels": labels, "shexc": text, **pipeline.case_json(g, cfg)})
    for sh in parsed['shapes']:
        for st in sh['stmts']:
            for t in st['types']:
                if t.startswith('%<') and t[2:-1] not in labels:
                    obs = {"kind": "dangling_reference", "ref": t[2:-1], "cfg": cfg, "triples": g}
                    fid = F.match(kf, obs)
                    if fid:
                        reproduced.add(fid)
                    else:
                        viol.append({"what": "shape reference does not resolve to a shape of the document", "reference": t[2:-1], "in_shape": sh['label'],
                                     "shexc": text, **pipeline.case_json(g, cfg)})
    # label tokens and property tokens must be valid ShExC tokens: <iri> or pname with a declared prefix (checked by the parser);
    # additionally the local part of a prefixed name must be a legal PN_LOCAL for the IRIs we generate
    declared = {p for p, _ in parsed['prefixes']}
    for ln in text.split("\n"):
        st = ln.strip()
        if not st or st.startswith(('PREFIX', '#', '{', '}')):
            continue
        for tok in st.split():
            if tok.startswith('#'):
                break                       # the rest of the line is a comment
            bad = bad_token(tok, declared)
            if bad:
                viol.append({"what": "token %r is not a ShExC token: %s" % (tok, bad), "line": ln, "shexc": text, **pipeline.case_json(g, cfg)})
                return parsed
    return parsed


_ESC = r"\\[_~.\-!$&'()*+,;=/?#@%]"
_PLX = r"(?:%[0-9A-Fa-f]{2}|" + _ESC + ")"
_PNAME = re.compile(r"^(?:[A-Za-z](?:[\w\-.]*[\w\-])?)?:(?:(?:[\w:]|" + _PLX + r")(?:(?:[\w\-.:]|" + _PLX + r")*(?:[\w\-:]|" + _PLX + r"))?)?$")
_PLAIN = {'IRI', 'BNode', 'NONLITERAL', 'LITERAL', '.', 'OR', 'AND', '^', '?', '*', '+', ';', 'a'}


def bad_token(tok, declared):
    """None if `tok` (one blank-separated token of a shape header or constraint line) is a legal ShExC token of the emitted subset"""
    t = tok.rstrip(';')
    if t.startswith('@'):
        t = t[1:]
    if t.startswith('[') and t.endswith(']') and not t.endswith('~]'):
        t = t[1:-1]
    if t.startswith('[<') and t.endswith('>~]'):
        t = t[1:-2]
    if not t or t in _PLAIN or re.fullmatch(r"\{\d+\}", t):
        return None
    if t.startswith('<'):
        if not t.endswith('>') or re.search(r'[<>"{}|^`\\\s]', t[1:-1]):
            return "malformed IRI reference"
        return None
    if t.startswith('"'):
        return None
    if ':' in t:
        if not _PNAME.match(t):
            return "not a prefixed name (PNAME_LN): a local name cannot contain '#', '/' ..., so the rest would be read as something else"
        if t.split(':', 1)[0] not in declared:
            return "prefix %r is not declared" % t.split(':', 1)[0]
        return None
    return None


def run(ctx):
    rng = random.Random(ctx.seed * 179424673 + 5)
    kf = F.load("C05")
    n = 400 if ctx.tier == "quick" else 8000
    cases = [gen_case(rng) if rng.random() < 0.8 else (gen_chain_case(rng) if rng.random() < 0.6 else gen_fan_case(rng)) for _ in range(n)]
    ir, dis = base.correspondence(ctx, cases)
    viol, reproduced = [], set()
    stats = {"colliding_prefix_dicts": 0, "custom_shapes_ns": 0, "shapes": 0, "references": 0, "shacl_documents": 0, "empty_shapes_kept": 0}
    nontriv = 0
    for (g, cfg), r in zip(cases, ir):
        stats["colliding_prefix_dicts"] += any(p in COLLIDING for p in cfg['ns_dict'].values())
        stats["custom_shapes_ns"] += cfg['shapes_ns'] != SHAPES_NS
        if r[0] == 'unparsable':
            viol.append({"what": "emitted ShExC does not parse: " + r[1], **pipeline.case_json(g, cfg)})
            continue
        if r[0] != 'ok':
            viol.append({"what": "implementation gave no result", "outcome": list(r[:3]), **pipeline.case_json(g, cfg)})
            continue
        parsed = check_shexc(r[2], g, cfg, kf, reproduced, viol)
        if parsed is None:
            continue
        stats["shapes"] += len(parsed['shapes'])
        refs = sum(1 for sh in parsed['shapes'] for st in sh['stmts'] for t in st['types'] if t.startswith('%<'))
        stats["references"] += refs
        stats["empty_shapes_kept"] += sum(1 for sh in parsed['shapes'] if not sh['stmts'])
        nontriv += refs > 0
    # disjunctions (search only, the token-level model has none): shape-map shapes A, B, C; the nodes of A point to nodes of B and of C,
    # the nodes of B share no feature, so that at a threshold above 1/|B| shape B loses every constraint and is removed: no alternative
    # of a disjunction in A may keep naming it.  Both output formats.
    from shexer.shaper import Shaper as _ShO
    from shexer import consts as _CO
    stats["disjunction_removal_cases"] = 0
    for i in range(40 if ctx.tier == "quick" else 600):
        nb, nc, na = rng.randint(2, 3), rng.randint(1, 3), rng.randint(2, 4)
        g = []
        for j in range(nb):
            g.append((I('b%d' % j), EX + 'only_b%d' % j, L('v')))          # no shared feature
        for j in range(nc):
            g.append((I('c%d' % j), EX + 'label', L('c')))
        for j in range(na):
            g.append((I('a%d' % j), EX + 'knows', I('b%d' % rng.randrange(nb))))
            g.append((I('a%d' % j), EX + 'knows', I('c%d' % rng.randrange(nc))))
            if rng.random() < 0.5:
                g.append((I('a%d' % j), EX + 'likes', I('b%d' % rng.randrange(nb))))
        g = list(dict.fromkeys(g))
        rng.shuffle(g)
        sm = "".join("<%s%s>@<%sshape%s>\n" % (EX, n_, EX, n_[0].upper()) for n_ in ['a%d' % j for j in range(na)] + ['b%d' % j for j in range(nb)] + ['c%d' % j for j in range(nc)])
        cfgd = gen.default_cfg()
        cfgd.update(disable_or=False, allow_redundant_or=rng.random() < 0.5, th=rng.choice([(3, 5), (2, 3), (1, 1), (0, 1)]), remove_empty=True, disable_comments=(i % 2 == 0),
                    inverse=rng.random() < 0.3, target_mode='none', targets=None)
        kw = impl.shaper_kwargs(cfgd)
        kw.pop('all_classes_mode', None); kw.pop('target_classes', None)
        stats["disjunction_removal_cases"] += 1
        for fmt in (_CO.SHEXC, _CO.SHACL_TURTLE):
            try:
                text = _ShO(raw_graph=to_nt(g), input_format=_CO.NT, shape_map_raw=sm, **kw).shex_graph(
                    string_output=True, acceptance_threshold=cfgd['th'][0] / cfgd['th'][1], output_format=fmt)
            except Exception as e:
                viol.append({"what": "disjunctions + shape map + removal of empty shapes: %s %s" % (type(e).__name__, str(e)[:120]), "shape_map": sm,
                             **pipeline.case_json(g, cfgd)})
                break
            if fmt == _CO.SHEXC:
                check_shexc(text, g, cfgd, [], set(), viol)
            else:
                try:
                    p = shacl_text.parse(text)
                    for o in p['sh_node_objects']:
                        if o not in p['declared']:
                            viol.append({"what": "sh:node object (possibly inside sh:or) is not a declared sh:NodeShape", "object": o, "shacl": text,
                                         "shape_map": sm, **pipeline.case_json(g, cfgd)})
                except Exception as e:
                    viol.append({"what": "SHACL with disjunctions not parseable: %s" % str(e)[:120], "shacl": text, **pipeline.case_json(g, cfgd)})
    # every document a Shaper emits, not only its first: one object asked several times (thresholds and formats varying between the calls);
    # each ShExC answer must define every label once and close its references, each SHACL answer must declare what it points to
    stats["repeated_call_documents"] = 0
    for (g, cfg) in cases[: (50 if ctx.tier == "quick" else 800)]:
        kw = impl.shaper_kwargs(cfg)
        grid = gen.threshold_grid(g, cfg['inst_prop'])
        try:
            sh_ = _ShO(raw_graph=to_nt(g), input_format=_CO.NT, **kw)
            for step in range(rng.randint(2, 4)):
                th = rng.choice(grid)
                fmt = _CO.SHEXC if rng.random() < 0.75 else _CO.SHACL_TURTLE
                text, hung = impl.guarded(lambda: sh_.shex_graph(string_output=True, acceptance_threshold=th[0] / th[1], output_format=fmt))
                if hung:
                    viol.append({"what": "repeated call did not return", **pipeline.case_json(g, dict(cfg, th=th))})
                    break
                stats["repeated_call_documents"] += 1
                if fmt == _CO.SHEXC:
                    nv = len(viol)
                    check_shexc(text, g, dict(cfg, th=th), kf, reproduced, viol)
                    for v_ in viol[nv:]:
                        v_["what"] = "call %d on one Shaper: %s" % (step + 1, v_["what"])
                else:
                    p_ = shacl_text.parse(text)
                    if len(p_['declared']) != len(set(p_['declared'])):
                        viol.append({"what": "call %d on one Shaper: SHACL node shape declared twice" % (step + 1), "shacl": text, **pipeline.case_json(g, dict(cfg, th=th))})
                    for o in p_['sh_node_objects']:
                        if o not in p_['declared']:
                            fid = F.match(kf, {"kind": "dangling_reference", "ref": o, "cfg": dict(cfg, th=th), "triples": g})
                            if fid:
                                reproduced.add(fid)
                            else:
                                viol.append({"what": "call %d on one Shaper: sh:node object is not a declared sh:NodeShape" % (step + 1), "object": o,
                                             "shacl": text, **pipeline.case_json(g, dict(cfg, th=th))})
        except Exception as e:
            fid = F.match(kf, {"kind": "exception", "exc": type(e).__name__, "msg": str(e)[:200], "cfg": cfg, "triples": g})     # as in the SHACL family below
            if fid:
                reproduced.add(fid)
            else:
                viol.append({"what": "repeated calls on one Shaper: %s %s" % (type(e).__name__, str(e)[:120]), **pipeline.case_json(g, cfg)})
    # inputs that declare prefixes of their own (Turtle read by rdflib): the declarations of the document are merged into the
    # prefix map after the shapes prefix was chosen, so they can collide with it or with the caller's prefixes
    from shexer.shaper import Shaper as _Sh
    from shexer import consts as _C
    stats["documents_with_own_prefixes"] = 0
    for (g, cfg) in cases[: (60 if ctx.tier == "quick" else 600)]:
        if cfg['inst_prop'] != RDF_TYPE or any(t[0][0] == 'B' or t[2][0] == 'B' for t in g):
            continue
        declared = {rng.choice(['', 'weso-s', 'shapes', 'ex', 'xsd', 'me']): EX}
        if rng.random() < 0.5:
            declared[rng.choice(['', 'w-shapes', 'o'])] = 'http://other.example/ns#'
        ttl = "".join("@prefix %s: <%s> .\n" % (p_, n_) for p_, n_ in declared.items()) + to_nt(g)
        stats["documents_with_own_prefixes"] += 1
        try:
            t = _Sh(raw_graph=ttl, input_format=_C.TURTLE, **impl.shaper_kwargs(cfg)).shex_graph(string_output=True, acceptance_threshold=cfg['th'][0] / cfg['th'][1])
        except Exception as e:
            viol.append({"what": "Turtle input with its own prefix declarations failed: %s %s" % (type(e).__name__, str(e)[:100]), "turtle_head": ttl[:300],
                         **pipeline.case_json(g, cfg)})
            continue
        seen = {}
        for ln in t.split("\n"):
            m = re.match(r'^PREFIX (\S*): <(.*)>$', ln.strip())
            if m:
                if m.group(1) in seen and seen[m.group(1)] != m.group(2):
                    viol.append({"what": "prefix %r declared twice in the ShExC (%s, %s) for a Turtle input that declares prefixes of its own" % (
                        m.group(1) + ":", seen[m.group(1)], m.group(2)), "turtle_head": ttl[:300], "shexc_head": t[:600], **pipeline.case_json(g, cfg)})
                    break
                seen[m.group(1)] = m.group(2)
    # a document longer than the serializer's 5000-line buffer (string output): labels still unique, still parseable
    from shexer.shaper import Shaper as _Shaper
    nclasses = 760
    big = "".join("<http://example.org/n%d> <%s> <http://example.org/K%d> .\n<http://example.org/n%d> <http://example.org/p> \"v\" .\n"
                  % (i, RDF_TYPE, i, i) for i in range(nclasses))
    t_big = _Shaper(raw_graph=big, all_classes_mode=True).shex_graph(string_output=True)
    stats["big_document_lines"] = t_big.count("\n")
    try:
        p_big = shex_text.parse(t_big)
        labs = [sh['label'] for sh in p_big['shapes']]
        if len(labs) != nclasses or len(set(labs)) != nclasses:
            viol.append({"what": "large document: %d shape definitions for %d classes (labels defined more than once or missing)" % (len(labs), nclasses),
                         "lines": t_big.count("\n"), "how_to_replay": "%d one-instance classes, all_classes_mode, shex_graph(string_output=True)" % nclasses})
    except shex_text.ShexParseError as e:
        viol.append({"what": "large document does not parse: %s" % e, "lines": t_big.count("\n")})
    # token-level correspondence: prefix declarations, label tokens, property and value tokens (Model/Text.lean)
    if ctx.driver_ok:
        lines = []
        for i, (g, cfg) in enumerate(cases):
            body = model.case_lines(g, cfg, 'text', "t%d" % i)
            lines += body[:-1] + ["NS\t%s\t%s" % (n_, p_) for n_, p_ in cfg['ns_dict'].items()] + body[-1:]
        res = model.run_driver(lines)
        for i, ((g, cfg), r) in enumerate(zip(cases, ir)):
            if r[0] != 'ok':
                continue
            ml = res.get("t%d" % i, [])
            if ml == ["RANDOM-PREFIX"]:
                continue
            m_pref = [l[2:] for l in ml if l.startswith("P\t")]
            i_pref = [l.strip() for l in r[2].split("\n") if l.startswith("PREFIX")]
            # statement order is compared by the shapes correspondence; here the tokens of each shape as a multiset
            m_tok, cur = [], None
            for l in ml:
                if l.startswith("L\t"):
                    cur = [l]
                    m_tok.append(cur)
                elif l.startswith("S\t"):
                    cur.append(l)
            m_tok = [[sh[0]] + sorted(sh[1:]) for sh in m_tok]
            i_tok = []
            for sh in r[1]['shapes']:
                i_tok.append(["L\t" + sh['label_tok']] + sorted("S\t%s\t%s" % (st['prop_tok'], "|".join(st['type_toks'])) for st in sh['stmts']))
            if m_pref != i_pref or m_tok != i_tok:
                dis.append({"what": "token level (Model/Text.lean) vs emitted ShExC", "prefixes": [m_pref, i_pref] if m_pref != i_pref else "equal",
                            "first_token_difference": next(((a, b) for a, b in zip(m_tok + [None] * 99, i_tok + [None] * 99) if a != b), None),
                            "shexc": r[2], **pipeline.case_json(g, cfg)})
    # SHACL documents
    from shexer.shaper import Shaper
    sub = cases[: (120 if ctx.tier == "quick" else 2500)]
    for g, cfg in sub:
        try:
            text = Shaper(raw_graph=to_nt(g), input_format=C.NT, **impl.shaper_kwargs(cfg)).shex_graph(
                string_output=True, acceptance_threshold=cfg['th'][0] / cfg['th'][1], output_format=C.SHACL_TURTLE)
            p = shacl_text.parse(text)
        except Exception as e:
            obs = {"kind": "exception", "exc": type(e).__name__, "msg": str(e)[:200], "cfg": cfg, "triples": g}
            fid = F.match(kf, obs)
            if fid:
                reproduced.add(fid)
            else:
                viol.append({"what": "SHACL document not produced / not parseable as Turtle: %s %s" % (type(e).__name__, str(e)[:150]),
                             **pipeline.case_json(g, cfg)})
            continue
        stats["shacl_documents"] += 1
        for o in p['sh_node_objects']:
            if o not in p['declared']:
                obs = {"kind": "dangling_reference", "ref": o, "cfg": cfg, "triples": g}
                fid = F.match(kf, obs)
                if fid:
                    reproduced.add(fid)
                else:
                    viol.append({"what": "sh:node object is not a declared sh:NodeShape", "object": o, "shacl": text, **pipeline.case_json(g, cfg)})
        for s in p['shapes']:
            for d in s['props']:
                if d['n_paths'] != 1:
                    viol.append({"what": "property shape without exactly one path", "shape": s['iri'], "shacl": text, **pipeline.case_json(g, cfg)})
    base.fragment_s_tie(ctx, dis, stats, ['build_shapes_name_for_class_uri', 'get_shape_label_for_class_uri', 'serializer_prefixize_uri_if_possible', 'prefixize_uri_if_possible', 'serializer_tune_token', 'prefixize_shape_name_if_possible', 'serializer_str_of_target_element'])
    return base.std_result(ctx, cases, viol, dis, base.known_lines(kf, reproduced), stats, nontriv, [],
                           "graphs / configurations of C01 plus user namespace dictionaries taking the default shape prefixes ('', weso-s, shapes, "
                           "w-shapes) in random combinations, empty dictionary, custom shapes_namespace, local names with inner dots / dashes / "
                           "underscores, remove_empty_shapes on/off, thresholds from the k/n grid; non-trivial = the document contains shape references", DEPS,
                           ["class IRIs with pairwise distinct local names (two classes sharing a local name yield duplicate labels: finding F-C05-1)",
                            "'parses under the ShExC grammar' is checked by the harness's strict recursive-descent parser of the emitted subset"])
