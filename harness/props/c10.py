"""C10 — shapes are computed from exactly the nodes the user selected.

proof : Props/C10.lean
tie   : Targets.resolve (model) vs the implementation's instance dictionary; Shexer.runSel vs the output
search: selectors evaluated directly on the abstract triples (Python), and every printed figure
        recomputed by the Lean Spec for the denoted selection
"""
import random, json, os, tempfile, shutil, collections
from common import *
import gen, pipeline, model, impl, compare, shex_text, findings as F, oracle
from props import base
from shexer import consts as C

PROPS_MODULES = ["ShexerModel.Props.C10", "ShexerModel.Props.GenStrUnprefix", "ShexerModel.Props.GenStrLabel"]
DEPS = []
replay = base.replay
SH_NS = "http://example.org/shapes/"


def spell_iri(rng, iri, ns):
    """full, or prefixed when the namespaces dictionary allows it"""
    for n, p in ns.items():
        if iri.startswith(n) and '/' not in iri[len(n):] and '#' not in iri[len(n):] and p != '' and rng.random() < 0.5:
            return "%s:%s" % (p, iri[len(n):])
    return "<%s>" % iri


def gen_item(rng, g, ns, classes, k):
    """-> (raw selector, raw label, abstract selector)"""
    nodes = sorted(set(s[1] for s, p, o in g if s[0] == 'I'))
    props = sorted(set(p for s, p, o in g))
    loc = "S%d" % k if rng.random() < 0.7 else "S%d:%s" % (k, rng.choice(['adult', 'x:y', '1']))     # ':' is legal inside a local name
    label_iri = SH_NS + loc
    label = "<%s>" % label_iri if rng.random() < 0.6 else "sx:" + loc
    r = rng.random()
    if r < 0.3 and nodes:
        n = rng.choice(nodes) if rng.random() < 0.85 else EX + "ghost"
        return spell_iri(rng, n, ns), label, ('node', n)
    p = rng.choice(props)
    pt = 'a' if p == RDF_TYPE and rng.random() < 0.6 else spell_iri(rng, p, ns)
    objs = sorted(set(o[1] for s, pp, o in g if pp == p and o[0] == 'I'))
    subs = sorted(set(s[1] for s, pp, o in g if pp == p and s[0] == 'I'))
    if r < 0.55:
        if objs and rng.random() < 0.6:
            o = rng.choice(objs)
            return "{FOCUS %s %s}" % (pt, spell_iri(rng, o, ns)), label, ('focus_s', p, o)
        return "{%s %s _}" % (rng.choice(["FOCUS", "focus"]), pt), label, ('focus_s', p, None)
    if r < 0.75 and not any(pp == p and o[0] == 'L' for s, pp, o in g):
        # {s p FOCUS}: only for properties whose values are all nodes (a literal answer is named by its lexical form; outside the model)
        if subs and rng.random() < 0.6:
            s = rng.choice(subs)
            return "{%s  %s FOCUS}" % (spell_iri(rng, s, ns), pt), label, ('focus_o', p, s)
        return "{_ %s FOCUS}" % pt, label, ('focus_o', p, None)
    # SPARQL selector with one pattern
    if objs and rng.random() < 0.5:
        o = rng.choice(objs)
        return 'SPARQL "select ?v where { ?v <%s> <%s> }"' % (p, o), label, ('focus_s', p, o)
    return "SPARQL 'select ?v where { ?v <%s> ?w }'" % p, label, ('focus_s', p, None)


def denote(g, sel):
    """nodes a selector denotes (Spec): evaluated directly on the abstract triples; duplicates removed"""
    out = []
    if sel[0] == 'node':
        return [sel[1]]
    for s, p, o in g:
        if p != sel[1]:
            continue
        if sel[0] == 'focus_s':
            if sel[2] is None or (o[0] == 'I' and o[1] == sel[2]):
                v = s
            else:
                continue
        else:
            if sel[2] is None or (s[0] == 'I' and s[1] == sel[2]):
                v = o
            else:
                continue
        key = v[1]
        if key not in out:
            out.append(key)
    return out


def label_key(raw_label, prefixes):
    if raw_label.startswith("<"):
        return raw_label
    p, loc = raw_label.split(":", 1)
    return "%" + prefixes[p] + loc


def expected_selection(g, items, cfg, prefixes):
    sel = collections.OrderedDict()
    for rs, rl, ab in items:
        lab = label_key(rl, prefixes)
        for n in denote(g, ab):
            sel.setdefault(n, [])
            if lab not in sel[n]:
                sel[n].append(lab)
    if cfg['target_mode'] == 'all':
        for n, cls in oracle.selection(g, cfg).items():
            sel.setdefault(n, [])
            sel[n] += cls
    return sel


def sort_parsed(parsed):
    shapes = sorted(parsed['shapes'], key=lambda s: s['label'])
    out = []
    for sh in shapes:
        sh = dict(sh)
        sts = []
        for st in sh['stmts']:
            st = dict(st)
            st['comments'] = sorted([c for c in st['comments'] if 'example' not in c], key=lambda c: (str(c['ty']), c['card'], c['n'] or 0))
            sts.append(st)
        sh['stmts'] = sorted(sts, key=lambda s: (s['inv'], s['prop'], tuple(s['types']), s['card'], s['n'] or 0))
        out.append(sh)
    return {'prefixes': parsed['prefixes'], 'shapes': out}


def sort_model(shapes):
    out = []
    for sh in sorted(shapes, key=lambda s: s['name']):
        sh = dict(sh)
        sts = []
        for st in sh['stmts']:
            st = dict(st)
            st['comments'] = sorted(st['comments'], key=lambda c: (str(c['ty']), c['card'], c['n']))
            sts.append(st)
        sh['stmts'] = sorted(sts, key=lambda s: (s['inv'], s['prop'], tuple(s['types']), s['card'], s['n']))
        out.append(sh)
    return out


def shape_map_family(ctx, rng, n, kf, tmpdir, stats, viol, dis, reproduced):
    """shape-map selection: the nodes behind each label are the nodes the selectors denote, the shapes are the model's for that
    selection, every figure is exact for it (Lean Spec); used by C10 (own) and, with a few cases, by C01 / C02 whose properties also
    hold for shape-map targets -> (sm_cases, nontriv)"""
    nontriv = 0
    # ---------- part 2: shape maps
    from shexer.shaper import Shaper
    lines = []
    sm_cases = []
    for i in range(n):
        g = [t for t in gen.gen_graph(rng, bnodes=False) if t[0][0] == 'I' and t[2][0] != 'B']
        if not g:
            continue
        if rng.random() < 0.4:
            # local names with ':' inside (legal in prefixed names: ex:item:42)
            ren = lambda t: ('I', t[1].replace(EX + 'n', EX + 'it:')) if t[0] == 'I' else t
            g = [(ren(s_), p_, ren(o_)) for s_, p_, o_ in g]
        ns = dict(DEFAULT_NS)
        if rng.random() < 0.4:
            # prefixes that are string prefixes of other declared prefixes, declared first ('e' before 'ex', 'r' before 'rdf', 's' before 'sx')
            ns = dict([('http://short.example.org/e/', 'e'), ('http://short.example.org/r/', 'r'), ('http://short.example.org/s/', 's')] + list(ns.items()))
        ns[SH_NS] = 'sx'
        prefixes = {p: nsp for nsp, p in ns.items()}
        classes = gen.classes_of(g)
        items = [gen_item(rng, g, ns, classes, k) for k in range(rng.randint(1, 3))]
        if len(items) >= 2 and rng.random() < 0.3:
            # two items with the SAME label (and possibly overlapping selectors): the shape is built from the union, each node once
            items[1] = (items[1][0], items[0][1], items[1][2])
        cfg = gen.gen_cfg(rng, g, presentation=False, allow_cap=False, allow_ignore=False)
        cfg['report'] = 'mixed'
        cfg['disable_comments'] = False
        cfg['ns_dict'] = ns
        cfg['targets'] = None
        cfg['target_mode'] = 'all' if rng.random() < 0.25 else 'shapemap'
        stats["mixed_mode"] += cfg['target_mode'] == 'all'
        syntax = rng.choice(['fsm', 'fsm', 'json'])
        delivery = rng.choice(['raw', 'file'])
        stats["syntax"][syntax] = stats["syntax"].get(syntax, 0) + 1
        stats["delivery"][delivery] = stats["delivery"].get(delivery, 0) + 1
        for rs, rl, ab in items:
            k = 'sparql' if rs.startswith('SPARQL') else ab[0]
            stats["selector_kinds"][k] = stats["selector_kinds"].get(k, 0) + 1
            stats["ghost_nodes"] += ab == ('node', EX + "ghost")
        stats["items"] += len(items)
        if syntax == 'fsm':
            text = "# shape map\n" + "".join("%s@%s%s\n" % (rs, rl, "," if rng.random() < 0.5 else "") for rs, rl, ab in items) + "\n"
        else:
            text = json.dumps([{"nodeSelector": rs, "shapeLabel": rl} for rs, rl, ab in items])
        kw = impl.shaper_kwargs(cfg)
        kw.pop('all_classes_mode', None)
        kw['all_classes_mode'] = cfg['target_mode'] == 'all'
        kw['shape_map_format'] = C.FIXED_SHAPE_MAP if syntax == 'fsm' else C.JSON
        if delivery == 'raw':
            kw['shape_map_raw'] = text
        else:
            path = os.path.join(tmpdir, "sm%d.txt" % i)
            open(path, "w").write(text)
            kw['shape_map_file'] = path
        try:
            sh = Shaper(raw_graph=to_nt(g), input_format=C.NT, **kw)
            out = sh.shex_graph(string_output=True, acceptance_threshold=cfg['th'][0] / cfg['th'][1])
            got_sel = {k: list(v[0]) for k, v in sh._target_classes_dict.items()}
            parsed = shex_text.parse(out)
        except Exception as e:
            viol.append({"what": "no result with a shape map: %s %s" % (type(e).__name__, str(e)[:150]), "shape_map": text,
                         **pipeline.case_json(g, cfg)})
            continue
        exp_sel = expected_selection(g, items, cfg, prefixes)
        if {k: sorted(v) for k, v in got_sel.items()} != {k: sorted(v) for k, v in exp_sel.items()}:
            obs = {"kind": "selection", "got": got_sel, "expected": dict(exp_sel), "cfg": cfg, "triples": g, "items": items}
            fid = F.match(kf, obs)
            if fid:
                reproduced.add(fid)
            else:
                viol.append({"what": "the nodes behind the shapes are not the nodes the shape map denotes",
                             "shape_map": text, "selected": {k: v for k, v in got_sel.items()}, "denoted": dict(exp_sel),
                             **pipeline.case_json(g, cfg)})
            continue
        nontriv += len(exp_sel) >= 2
        sm_cases.append((g, cfg, items, prefixes, exp_sel, parsed, out, text, got_sel))
    # model: resolve + shapes; spec: figures for the denoted selection
    if ctx.driver_ok and sm_cases:
        lines = []
        for j, (g, cfg, items, prefixes, exp_sel, parsed, out, text, got_sel) in enumerate(sm_cases):
            mcfg = dict(cfg)
            if mcfg['target_mode'] != 'all':
                mcfg['target_mode'] = 'none'
            body = model.case_lines(g, mcfg, 'resolve', "r%d" % j)
            extra = ["PX\t%s\t%s" % (p, nsp) for p, nsp in prefixes.items()]
            for rs, rl, ab in items:
                if rs.startswith("SPARQL"):
                    extra.append("SMR\t%s\t%s\t%s" % (rs.replace("\t", " "), rl, "|".join(denote_rows(g, ab))))
                else:
                    extra.append("SM\t%s\t%s" % (rs, rl))
            lines += body[:-1] + extra + body[-1:]
            # the shapes for the selection in the implementation's own dictionary order (selector rows come from rdflib
            # in an unspecified order; ties in the merge stages are decided by that order)
            body2 = model.case_lines(g, mcfg, 'shapessel', "s%d" % j)
            sel_lines = ["SEL\t%s\t%s" % (n_, "|".join(labs)) for n_, labs in got_sel.items()]
            lines += body2[:-1] + extra + sel_lines + body2[-1:]
        res = model.run_driver(lines)
        for j, (g, cfg, items, prefixes, exp_sel, parsed, out, text, got_sel) in enumerate(sm_cases):
            msel = {}
            for ln in res.get("r%d" % j, []):
                f = ln.split("\t")
                if f[0] == 'SEL':
                    msel[f[1]] = sorted(f[2].split("|")) if f[2] else []
            if msel != {k: sorted(v) for k, v in exp_sel.items()}:
                dis.append({"what": "Targets.resolve (model) vs the selection the implementation computed", "model": msel,
                            "impl": {k: sorted(v) for k, v in exp_sel.items()}, "shape_map": text, **pipeline.case_json(g, cfg)})
                continue
            ml = res.get("s%d" % j, [])
            if ml == ["ERR"]:
                dis.append({"what": "model rejects a shape map the implementation accepts", "shape_map": text, **pipeline.case_json(g, cfg)})
                continue
            d = compare.compare(model.parse_shapes(ml), parsed, cfg)
            if d:
                dis.append({"what": "Shexer.runSel (model) vs implementation with a shape map", "diffs": d[:5], "shape_map": text,
                            "shexc": out, **pipeline.case_json(g, cfg)})
    if ctx.spec_ok and sm_cases:
        lines = []
        allfacts = []
        for j, (g, cfg, items, prefixes, exp_sel, parsed, out, text, got_sel) in enumerate(sm_cases):
            lm = {}
            for n_, labs in exp_sel.items():
                for lab in labs:
                    lm.setdefault(model_label_iri(lab, cfg), []).append(lab) if lab not in lm.get(model_label_iri(lab, cfg), []) else None
            facts = oracle.facts_of(parsed, cfg, lm)
            allfacts.append(facts)
            body = model.case_lines(g, oracle.spec_cfg(cfg), 'spec', "q%d" % j)
            sel_lines = ["SEL\t%s\t%s" % (n_, "|".join(labs)) for n_, labs in exp_sel.items()]
            qs = []
            for f in facts:
                if f['kind'] == 'size':
                    qs.append("Q\t%s\tD\t-\t-\t+" % f['class'])
                elif f['kind'] in ('line', 'comment'):
                    qs.append("Q\t%s\t%s\t%s\t%s\t%s" % (f['class'], 'I' if f['inv'] else 'D', f['prop'], f['ty'], f['card']))
            lines += body[:-1] + sel_lines + qs + body[-1:]
        res = model.run_driver(lines, spec_only=True)
        kf01 = F.load("C01")
        for j, (g, cfg, items, prefixes, exp_sel, parsed, out, text, got_sel) in enumerate(sm_cases):
            facts = allfacts[j]
            answers = res.get("q%d" % j, [])
            k = 0
            for f in facts:
                if f['kind'] == 'unknown-label':
                    continue
                a = answers[k].split("\t")
                k += 1
                f['spec_n'], f['spec_N'] = int(a[1]), int(a[2])
            for b in pipeline.fact_failures(facts, cfg):
                if b.get('ty') == 'NONLITERAL':
                    continue
                viol.append({"what": "shape map: " + b['why'], "fact": {k2: v for k2, v in b.items() if k2 != 'siblings'}, "shape_map": text,
                             "shexc": out, **pipeline.case_json(g, cfg)})
    return sm_cases, nontriv


def run(ctx):
    rng = random.Random(ctx.seed * 160481183 + 10)
    kf = F.load("C10")
    n = 200 if ctx.tier == "quick" else 4000
    tmpdir = tempfile.mkdtemp(prefix="verif_c10_")
    viol, dis, reproduced = [], [], set()
    stats = {"selector_kinds": {}, "syntax": {}, "delivery": {}, "mixed_mode": 0, "class_target_cases": 0, "items": 0, "ghost_nodes": 0}
    nontriv = 0
    cases = []
    try:
        # ---------- part 1: class targets in three spellings x instantiation properties (selection via the shared pipeline)
        cls_cases = []
        for i in range(n // 2):
            ip = rng.choice([RDF_TYPE, EX + 'inst', WD_P31])
            g = gen.gen_graph(rng, inst_prop=ip)
            cfg = gen.gen_cfg(rng, g, inst_prop=ip, presentation=False, allow_cap=False, allow_ignore=False)
            cfg['report'] = 'mixed'
            cfg['disable_comments'] = False
            if rng.random() < 0.15:
                # the namespace of the instantiation property among the namespaces to ignore: the constraints on it go, the SELECTION stays
                # (which nodes stand behind a shape is read from the instantiation triples whatever the feature pass ignores)
                ipns = ip[:max(ip.rfind('#'), ip.rfind('/')) + 1]
                cfg['ignore_ns'] = [ipns] if rng.random() < 0.6 else [EX + 'zz/', ipns]
                cfg['remove_empty'] = False
                stats["instprop_namespace_ignored"] = stats.get("instprop_namespace_ignored", 0) + 1
            if cfg['target_mode'] == 'classes':
                nsd = dict(DEFAULT_NS)
                cfg['ns_dict'] = nsd
                sp = []
                pre_ex = "ex"
                if rng.random() < 0.3:
                    # the namespace of the classes under a prefix with a hyphen / a dot (legal PN_PREFIX: dbpedia-owl:, my.ns:)
                    pre_ex = rng.choice(["dbpedia-owl", "my.ns", "ex-2", "e_x"])
                    for k_ in [k_ for k_, v_ in nsd.items() if k_ == EX]:
                        nsd[k_] = pre_ex
                    if EX not in nsd:
                        nsd[EX] = pre_ex
                for c in cfg['targets']:
                    r = rng.random()
                    sp.append(c if r < 0.34 else "<%s>" % c if r < 0.67 else (pre_ex + ":" + c[len(EX):] if c.startswith(EX) else c))
                if rng.random() < 0.3:
                    # class IRIs of the scheme urn: while the caller also declares a prefix named 'urn': a <bracketed> class is a full IRI and
                    # must not be read as the prefixed name urn: + C0 (the unbracketed spelling would be ambiguous, so it is not used here)
                    ren = lambda t: ('I', 'urn:' + t[1][len(EX):]) if t[0] == 'I' and t[1].startswith(EX + 'C') else t
                    g = [(s_, p_, ren(o_)) for s_, p_, o_ in g]
                    cfg['targets'] = ['urn:' + c[len(EX):] if c.startswith(EX + 'C') else c for c in cfg['targets']]
                    nsd['http://example.org/urnns/'] = 'urn'
                    sp = ["<%s>" % c for c in cfg['targets']]
                elif rng.random() < 0.25:
                    # a declared prefix called 'http' (legal): full IRIs - instantiation property, target classes in any spelling - stay full IRIs
                    nsd['http://example.org/scheme/'] = 'http'
                cfg['targets_spelled'] = sp
            cls_cases.append((g, cfg))
        stats["class_target_cases"] = len(cls_cases)
        ir, d1 = base.correspondence(ctx, cls_cases)
        dis += d1
        if ctx.spec_ok:
            sp = pipeline.run_spec(cls_cases, ir)
            kf01 = F.load("C01")
            for (g, cfg), r, facts in zip(cls_cases, ir, sp):
                if r[0] != 'ok':
                    viol.append({"what": "implementation gave no result", "outcome": list(r[:3]), **pipeline.case_json(g, cfg)})
                    continue
                for b in pipeline.fact_failures(facts, cfg):
                    if not F.match(kf01, {"fact": b, "triples": g, "cfg": cfg}):
                        viol.append({"what": "class targets: " + b['why'], "fact": {k: v for k, v in b.items() if k != 'siblings'}, **pipeline.case_json(g, cfg)})
        sm_cases, nt2 = shape_map_family(ctx, rng, n, kf, tmpdir, stats, viol, dis, reproduced)
        nontriv += nt2
        cases = cls_cases + [(c[0], c[1]) for c in sm_cases]
    finally:
        shutil.rmtree(tmpdir, ignore_errors=True)
    # targets and the instantiation property given as prefixed names are expanded by unprefixize_uri_if_possible (regenerated, Props/GenStrUnprefix)
    base.fragment_s_tie(ctx, dis, stats, ['unprefixize_uri_if_possible', 'unprefixize_uri_mandatory', 'label_is_a_prefixed_uri', 'label_parse_prefixed_label', 'parse_shape_map_label'])
    return base.std_result(ctx, cases, viol, dis, base.known_lines(kf, reproduced), stats, nontriv, [],
                           "class targets: random subsets of classes in three spellings (full, <bracketed>, prefixed) x instantiation property "
                           "in {rdf:type, custom, P31-like}; shape maps: 1-3 items from a grammar of selectors (node full/prefixed, ghost node, "
                           "FOCUS patterns in both positions with wildcard / IRI / prefixed / 'a', single-pattern SPARQL SELECT) and labels (full "
                           "IRI / prefixed), fixed and JSON syntax, raw and file delivery, with and without all_classes_mode, IRI-only graphs; "
                           "non-trivial = the shape map denotes at least two nodes", DEPS,
                           ["SPARQL selectors are restricted to single-pattern queries that the harness evaluates itself",
                            "graphs without blank nodes (selector answers that are blank nodes carry rdflib-internal labels: finding F-C10-2)"])


def denote_rows(g, ab):
    return denote(g, ab)


def model_label_iri(lab, cfg):
    """IRI under which the shape for label key `lab` is printed (mirror of build_shapes_name_for_class_uri)"""
    if lab.startswith("<") and lab.endswith(">"):
        return lab[1:-1]
    return oracle.shape_label(lab, cfg['shapes_ns'])
