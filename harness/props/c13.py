"""C13 — each option changes only what it documents.

proof : Props/C13.lean (run-level equations for disable_comments, disable_exact_cardinality,
        all_instances_are_compliant_mode; per-statement characterisation of the relaxation pass)
tie   : correspondence with presentation options varied (the model has no such inputs)
search: pairs of fresh implementation runs differing in exactly one option; ratio text vs exact ratio
"""
import random, json, tempfile, os
from fractions import Fraction
from common import *
import gen, pipeline, model, impl, compare, findings as F, oracle
from props import base

PROPS_MODULES = ["ShexerModel.Props.C13", "ShexerModel.Props.C13b", "ShexerModel.Props.C13c"]
DEPS = ["relax_cardinality", "generalize_cardinality", "cardinality_representation"]
replay = base.replay

OPTIONS = ['disable_comments', 'decimals', 'report', 'ns_dict', 'shapes_ns', 'sink', 'all_compliant', 'allow_opt', 'disable_exact', 'disable_or']


def skeleton(parsed, strip_ns=None):
    out = []
    for sh in parsed['shapes']:
        lab = sh['label']
        out.append((lab.rsplit('/', 1)[-1].rsplit('#', 1)[-1] if strip_ns else lab,
                    [(st['inv'], st['prop'], tuple(t.rsplit('/', 1)[-1] if (strip_ns and t.startswith('%')) else t for t in st['types']), st['card'])
                     for st in sh['stmts']]))
    return out


kf_global = []
reproduced_global = set()


def variant(rng, cfg, opt):
    c = dict(cfg)
    if opt == 'decimals':
        c['decimals'] = rng.choice([d for d in (-1, 0, 1, 2, 3) if d != cfg['decimals']])
    elif opt == 'report':
        c['report'] = rng.choice([m for m in ('mixed', 'abs', 'ratio') if m != cfg['report']])
    elif opt == 'ns_dict':
        c['ns_dict'] = {} if cfg['ns_dict'] else dict(DEFAULT_NS)
    elif opt == 'shapes_ns':
        c['shapes_ns'] = 'http://other.example/sh#' if cfg['shapes_ns'] == SHAPES_NS else SHAPES_NS
    elif opt == 'disable_or':
        c['disable_or'] = not cfg['disable_or']
        if c['disable_or']:
            c['allow_redundant_or'] = False
    elif opt == 'sink':
        pass
    else:
        c[opt] = not cfg[opt]
    return c


def check_pair(opt, cfg, cfg2, p1, p2, t1, t2, g, viol):
    def bad(msg, **kw):
        viol.append({"what": "option %s: %s" % (opt, msg), "option": opt, **kw, **pipeline.case_json(g, cfg),
                     "cfg_variant": {k: v for k, v in cfg2.items() if cfg.get(k) != v}})
    if opt in ('disable_comments', 'decimals', 'report', 'ns_dict', 'sink'):
        if skeleton(p1) != skeleton(p2):
            bad("set of shapes / constraints / cardinalities changed")
        if opt == 'disable_comments':
            ex = lambda p: [(sh['label'], sh.get('example'), [(st['inv'], st['prop'], [c['example'] for c in st['comments'] if 'example' in c]) for st in sh['stmts']])
                            for sh in p['shapes']]
            if ex(p1) != ex(p2):
                bad("the example annotations (// rdfs:comment ...) changed")
        if opt == 'sink' and t1 != t2:
            bad("file output differs from string output")
        return
    if opt == 'shapes_ns':
        if [(l, [(a, b, len(c), d) for a, b, c, d in sts]) for l, sts in skeleton(p1, True)] != \
           [(l, [(a, b, len(c), d) for a, b, c, d in sts]) for l, sts in skeleton(p2, True)]:
            fid = F.match(kf_global, {"kind": "shapes_ns_pair", "cfg": cfg, "cfg2": cfg2, "parsed1": p1, "parsed2": p2})
            if fid:
                reproduced_global.add(fid)
            else:
                bad("constraints changed beyond the renaming of shape labels")
        return
    s1 = {sh['label']: sh for sh in p1['shapes']}
    s2 = {sh['label']: sh for sh in p2['shapes']}
    if set(s1) != set(s2):
        if opt == 'disable_or' and cfg['remove_empty']:
            # a reference to a shape that is removed as empty takes its whole constraint with it (F-C02-2); with and without
            # disjunctions different constraints are hit, so a shape can end up empty - and be removed - in one variant only
            fid = F.match(kf_global, {"kind": "order_dependent_keys", "cfg": cfg, "keys": [(False, '', 'nonliteral')], "a_shape_was_removed": True})
            if fid:
                reproduced_global.add(fid)
                return
        bad("set of shapes changed")
        return
    on, off = (s1, s2) if cfg[opt] else (s2, s1)       # `on`: option True
    for lab in on:
        a = {(st['inv'], st['prop'], tuple(st['types'])): st for st in on[lab]['stmts']}
        b = {(st['inv'], st['prop'], tuple(st['types'])): st for st in off[lab]['stmts']}
        if opt == 'disable_or':
            # on = OR disabled: single statements;  off = OR enabled: some become disjunctions over the same alternatives
            ka = {(st['inv'], st['prop'], base.stmt_vclass(st, cfg)) for st in on[lab]['stmts']}
            kb = {(st['inv'], st['prop'], base.stmt_vclass(st, cfg)) for st in off[lab]['stmts']}
            if ka != kb:
                diff = list(ka ^ kb)
                fid = F.match(kf_global, {"kind": "order_dependent_keys", "cfg": cfg, "keys": diff,
                                          "a_shape_was_removed": len(s1) < len(gen.classes_of(g, cfg['inst_prop']) if cfg['target_mode'] == 'all' else cfg['targets'])})
                if fid:
                    reproduced_global.add(fid)
                else:
                    bad("keys changed", label=lab)
            else:
                # the disjunction stands where the single non-literal constraint stood: same cardinality (when the key has one statement
                # on either side; the figures of the alternatives are compared by C01)
                for key in ka:
                    sa = [st for st in on[lab]['stmts'] if (st['inv'], st['prop'], base.stmt_vclass(st, cfg)) == key]
                    sb = [st for st in off[lab]['stmts'] if (st['inv'], st['prop'], base.stmt_vclass(st, cfg)) == key]
                    if len(sa) == 1 and len(sb) == 1 and len(sb[0]['types']) > 1 and sa[0]['card'] != sb[0]['card']:
                        bad("the disjunction has another cardinality than the single constraint it replaces", label=lab, key=list(map(str, key)),
                            single=[list(sa[0]['types']), sa[0]['card']], disjunction=[list(sb[0]['types']), sb[0]['card']])
            continue
        if set(a) != set(b):
            bad("set of constraints changed", label=lab)
            continue
        for k in a:
            ca, cb = a[k]['card'], b[k]['card']
            if opt == 'all_compliant':
                # on relaxes: below 100 % card becomes ? / *, at 100 % unchanged
                if ca != cb and ca not in ('?', '*'):
                    bad("cardinality rewritten to something other than ? / *", label=lab, key=list(map(str, k)), on=ca, off=cb)
                if ca != cb and b[k]['has_fig'] and b[k]['n'] is not None and on[lab]['n'] is not None and b[k]['n'] == on[lab]['n']:
                    bad("cardinality of a 100 % constraint rewritten", label=lab, key=list(map(str, k)), on=ca, off=cb)
            elif opt == 'allow_opt':
                # off (= allow_opt False) only replaces ? by *
                if not (ca == cb or (ca == '?' and cb == '*')):
                    bad("changed something other than ? -> *", label=lab, key=list(map(str, k)), on=ca, off=cb)
            elif opt == 'disable_exact':
                # on only replaces {k>1} by +
                exact_gt1 = cb.startswith('{') and cb != '{1}'
                if not (ca == cb or (exact_gt1 and ca == '+')):
                    bad("changed something other than {k>1} -> +", label=lab, key=list(map(str, k)), on=ca, off=cb)
                if exact_gt1 and ca != '+':
                    bad("{k>1} not generalised", label=lab, key=list(map(str, k)), on=ca, off=cb)


def ratio_texts(parsed, cfg, viol, g):
    """decimals=n prints each ratio rounded to n places of the exact ratio (n/N both printed in mixed mode)"""
    if cfg['report'] != 'mixed':
        return 0
    k = 0
    for sh in parsed['shapes']:
        N = sh['n']
        if not N:
            continue
        figs = [(st['ratio'], st['n'], 'NONLITERAL' in st['types']) for st in sh['stmts'] if st['has_fig']]
        figs += [(cm['ratio'], cm['n'], cm['ty'] == 'NONLITERAL') for st in sh['stmts'] for cm in st['comments'] if 'example' not in cm]
        for ratio, n, nl in figs:
            if ratio is None or n is None:
                continue
            k += 1
            if nl:
                continue
            exact_ok = compare.ratio_ok(ratio, n, N, cfg['decimals'])
            if cfg['decimals'] == 0:
                # strict: must be the ratio rounded to 0 places; truncation is finding F-C13-1
                from fractions import Fraction
                exact_ok = abs(Fraction(ratio) - Fraction(100 * n, N)) <= Fraction(1, 2)
            if cfg['decimals'] >= 0 and '.' in ratio and len(ratio.split('.', 1)[1]) > cfg['decimals']:
                viol.append({"what": "ratio text %s has more than decimals=%d places (report mode %s)" % (ratio, cfg['decimals'], cfg['report']),
                             **pipeline.case_json(g, cfg)})
                continue
            if not exact_ok:
                obs = {"kind": "ratio_text", "ratio": ratio, "n": n, "N": N, "decimals": cfg['decimals']}
                fid = F.match(kf_global, obs)
                if fid:
                    reproduced_global.add(fid)
                    continue
                viol.append({"what": "ratio text %s is not %d/%d rounded to %s places" % (ratio, n, N, cfg['decimals']), **pipeline.case_json(g, cfg)})
    return k


def mixed_values_graph(rng):
    k = rng.randint(2, 3)
    g = []
    kinds = ['Person', 'Dog', 'Cat'][: rng.randint(2, 3)]
    members = {c: [I('%s%d' % (c.lower(), j)) for j in range(rng.randint(1, 3))] for c in kinds}
    for c, ms in members.items():
        for m in ms:
            g.append((m, RDF_TYPE, I(c)))
    for m in members['Person']:
        typed = [x for c in kinds for x in members[c] if x != m]
        vals = rng.sample(typed, min(len(typed), rng.randint(1, k - 1)))
        while len(vals) < k:
            vals.append(I('x%d' % rng.randint(0, 9)))
        for v in dict.fromkeys(vals):
            g.append((m, EX + 'knows', v))
    for m in members['Dog']:
        g.append((m, EX + 'name', L('Rex')))
    g = list(dict.fromkeys(g))
    rng.shuffle(g)
    return g


def run(ctx):
    rng = random.Random(ctx.seed * 32452843 + 13)
    kf = F.load("C13")
    kf_global[:] = kf
    reproduced_global.clear()
    ngraphs = 100 if ctx.tier == "quick" else 2000
    cases, pairs = [], []
    for i in range(ngraphs):
        g = gen.gen_graph(rng) if rng.random() < 0.7 else gen.gen_schema_graph(rng)
        cfg = gen.gen_cfg(rng, g, presentation=True, allow_or=True)
        if i % 4 == 3:
            # every instance has several values of one property, some in classes, some in none: the plain node kind stands at another
            # cardinality ({2}, {3}) than each shape alternative - what a disjunction (redundant or not) must leave alone
            g = mixed_values_graph(rng)
            cfg = gen.gen_cfg(rng, g, presentation=True, allow_or=True)
            cfg.update(th=(0, 1), target_mode='all', targets=None, inst_prop=RDF_TYPE, cap=-1, ignore_ns=None,
                       disable_or=False, allow_redundant_or=rng.random() < 0.7)
        for opt in OPTIONS:
            if opt == 'allow_opt' and not cfg['all_compliant']:
                cfg = dict(cfg, all_compliant=True)
            if opt == 'disable_comments':
                # constraint / shape examples are annotations of the schema, not comments: they stay when comments are disabled
                cfg = dict(cfg, examples=rng.choice([None, 'cons', 'all', 'shape']))
            elif cfg.get('examples'):
                cfg = dict(cfg, examples=None)
            c2 = variant(rng, cfg, opt)
            pairs.append((opt, len(cases), len(cases) + 1))
            cases.append((g, cfg))
            cases.append((g, c2))
    ir = pipeline.run_impl(cases)
    # correspondence only where the model applies (OR statements are compared too)
    _, dis = base.correspondence(ctx, cases, ir)
    viol = []
    stats = {"pairs_per_option": {}, "ratio_texts_checked": 0}
    nontriv = 0
    tmpdir = tempfile.mkdtemp(prefix="verif_c13_")
    try:
        for opt, i, j in pairs:
            g, cfg = cases[i]
            _, cfg2 = cases[j]
            r1, r2 = ir[i], ir[j]
            stats["pairs_per_option"][opt] = stats["pairs_per_option"].get(opt, 0) + 1
            if r1[0] != 'ok' or r2[0] != 'ok':
                fid = F.match(kf, {"kind": "no_result", "cfg": cfg, "cfg2": cfg2, "r1": r1, "r2": r2})
                if not fid:
                    viol.append({"what": "implementation gave no result", "outcomes": [list(r1[:3]), list(r2[:3])], **pipeline.case_json(g, cfg)})
                continue
            t2 = r2[2]
            if opt == 'sink':
                # same configuration, output to a file
                from shexer.shaper import Shaper
                path = os.path.join(tmpdir, "o.shex")
                sh = Shaper(raw_graph=to_nt(g), **impl.shaper_kwargs(cfg))
                sh.shex_graph(output_file=path, acceptance_threshold=cfg['th'][0] / cfg['th'][1])
                t2 = open(path).read()
            nontriv += bool(r1[1]['shapes'] and any(len(s['stmts']) > 1 for s in r1[1]['shapes']))
            check_pair(opt, cfg, cfg2, r1[1], r2[1], r1[2], t2, g, viol)
            if opt == 'disable_or' and cfg['inverse'] and not cfg['remove_empty']:
                # the SHACL rendering of the pair: a disjunction keeps the direction (and the path) of the single constraint it replaces
                import shacl_text, collections
                from shexer import consts as C_
                sa = impl.run_shaper(to_nt(g), cfg, output_format=C_.SHACL_TURTLE)
                sb = impl.run_shaper(to_nt(g), cfg2, output_format=C_.SHACL_TURTLE)
                stats["shacl_or_pairs"] = stats.get("shacl_or_pairs", 0) + 1
                if sa[0] != 'ok' or sb[0] != 'ok':
                    viol.append({"what": "option disable_or: no SHACL result", "outcomes": [list(sa[:3])[:2], list(sb[:3])[:2]], **pipeline.case_json(g, cfg)})
                else:
                    da = {x['iri']: collections.Counter((d_['inverse'], d_['path']) for d_ in x['props']) for x in shacl_text.parse(sa[1])['shapes']}
                    db = {x['iri']: collections.Counter((d_['inverse'], d_['path']) for d_ in x['props']) for x in shacl_text.parse(sb[1])['shapes']}
                    if da != db:
                        lab = next(l for l in set(da) | set(db) if da.get(l) != db.get(l))
                        viol.append({"what": "option disable_or: in SHACL the directions / paths of the property shapes of %s change" % lab,
                                     "one": sorted(map(str, (da.get(lab) or {}).elements())), "other": sorted(map(str, (db.get(lab) or {}).elements())),
                                     **pipeline.case_json(g, cfg), "cfg_variant": {k: v for k, v in cfg2.items() if cfg.get(k) != v}})
            stats["ratio_texts_checked"] += ratio_texts(r1[1], cfg, viol, g)
        # output sink on a result longer than the serializer's 5000-line buffer
        from shexer.shaper import Shaper
        nclasses = 1300
        big = "".join("<http://example.org/n%d> <%s> <http://example.org/K%d> .\n<http://example.org/n%d> <http://example.org/p> \"v\" .\n"
                      % (i, RDF_TYPE, i, i) for i in range(nclasses))
        path = os.path.join(tmpdir, "big.shex")
        t_str = Shaper(raw_graph=big, all_classes_mode=True).shex_graph(string_output=True)
        Shaper(raw_graph=big, all_classes_mode=True).shex_graph(output_file=path)
        t_file = open(path).read()
        stats["big_output_lines"] = t_str.count("\n")
        if t_str != t_file:
            viol.append({"what": "option sink: file output differs from string output on a large result",
                         "lines_string": t_str.count("\n"), "lines_file": t_file.count("\n"),
                         "how_to_replay": "%d one-instance classes, all_classes_mode, shex_graph(string_output=True) vs shex_graph(output_file=f)" % nclasses})
        # option decimals on a class large enough for a ratio below 1 to be WRITTEN as 100 % (250 instances under decimals=0, 2500 under
        # decimals=1): constraints and cardinalities must be those of decimals=-1, in all-compliant mode too
        import shex_text
        stats["decimals_large_class_cases"] = 0
        for N, decs in ([(250, (0,)), (2500, (0, 1))] if ctx.tier == "quick" else [(250, (0, 1, 2)), (2500, (0, 1, 2)), (21000, (2,))]):
            big2 = []
            for i in range(N):
                big2 += [(I('w%d' % i), RDF_TYPE, I('Wide')), (I('w%d' % i), EX + 'always', L('v'))]
                if i != 3:
                    big2.append((I('w%d' % i), EX + 'code', L('c')))
                if i != 5:
                    big2.append((I('w%d' % i), EX + 'ref', I('w%d' % ((i + 1) % N))))
            nt2 = to_nt(big2)
            for compliant in (True, False):
                def sig(dec):
                    t_ = Shaper(raw_graph=nt2, all_classes_mode=True, all_instances_are_compliant_mode=compliant, decimals=dec).shex_graph(string_output=True)
                    return [(sh['label'], [(st['inv'], st['prop'], tuple(st['types']), st['card']) for st in sh['stmts']]) for sh in shex_text.parse(t_)['shapes']]
                ref_sig = sig(-1)
                for dec in decs:
                    stats["decimals_large_class_cases"] += 1
                    got_sig = sig(dec)
                    if got_sig != ref_sig:
                        viol.append({"what": "option decimals=%d changes constraints / cardinalities on a class of %d instances (all_instances_are_compliant_mode=%s)"
                                             % (dec, N, compliant), "decimals_minus_one": repr(ref_sig)[:500], "with_decimals": repr(got_sig)[:500],
                                     "how_to_replay": "%d instances of ex:Wide, ex:code missing from one, ex:ref from another; decimals=-1 vs %d" % (N, dec)})
    finally:
        import shutil
        shutil.rmtree(tmpdir, ignore_errors=True)
    # known finding replay (decimals=0 truncation)
    known = base.known_lines(kf, set(reproduced_global))
    return base.std_result(ctx, cases, viol, dis, known, stats, nontriv, [],
                           "per random graph and configuration, one pair of fresh Shapers per option (10 options), the two differing in that "
                           "option only; presentation options must leave shapes/constraints/cardinalities equal, semantic switches may change "
                           "cardinalities only as documented; every ratio text is compared with the exact n/N (mixed mode)", DEPS,
                           ["decimals=0 truncates instead of rounding (finding F-C13-1, pinned by the golden file g_person_0_decimals.shex): "
                            "for d = 0 any value within 1 of the exact ratio is accepted"])
