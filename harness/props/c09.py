"""C09 — shapes do not depend on statement order or blank-node labels.

proof : Props/C09.lean (the declarative counts, hence every profile entry, are invariant under permutation of the document)
tie   : ordered correspondence on the original and on the permuted / relabelled documents
search: evidence sets of two fresh implementation runs; chosen constraints when no frequency tie
"""
import random, json, itertools
from common import *
import gen, pipeline, model, findings as F, oracle
from props import base

PROPS_MODULES = ["ShexerModel.Props.C09", "ShexerModel.Props.C09b"]
DEPS = []
replay = base.replay


def rename_bnodes(rng, triples):
    labels = sorted(set(t[1] for s, p, o in triples for t in (s, o) if t[0] == 'B'))
    # legal blank-node labels of several shapes: letters and digits, inner '-', '.', '_', uuid-like
    style = rng.choice(['_:r%d', '_:r-%d', '_:genid.%d', '_:b_%d_x', '_:N3f2a9c-%d-4e', '_:%dz'])
    new = [style % i for i in range(len(labels))]
    rng.shuffle(new)
    m = dict(zip(labels, new))
    f = lambda t: ('B', m[t[1]]) if t[0] == 'B' else t
    return [(f(s), p, f(o)) for s, p, o in triples], m


def evidence(parsed, bmap=None):
    """(label, N), keys, and the set of (inv, prop, type, card, n) facts over lines and comments"""
    ev = {}
    for sh in parsed['shapes']:
        facts = set()
        for st in sh['stmts']:
            if st['has_fig'] and len(st['types']) == 1 and st['n'] is not None:
                facts.add((st['inv'], st['prop'], st['types'][0], st['card'], st['n']))
            for cm in st['comments']:
                if 'example' not in cm and cm['ty'] != '~choice':
                    facts.add((st['inv'], st['prop'], cm['ty'], cm['card'], cm['n']))
        ev[sh['label']] = (sh['n'], facts)
    return ev


def chosen(parsed):
    return {sh['label']: sorted((st['inv'], st['prop'], tuple(st['types']), st['card']) for st in sh['stmts']) for sh in parsed['shapes']}


def has_tie(parsed):
    """some statement whose alternatives (node kinds / shape references / cardinalities shown in comments) tie in count"""
    for sh in parsed['shapes']:
        for st in sh['stmts']:
            alts = {}
            if st['n'] is not None and st['has_fig']:
                alts[(st['types'][0], st['card'])] = st['n']
            for cm in st['comments']:
                if 'example' not in cm and cm['n'] is not None:
                    alts.setdefault((cm['ty'], cm['card']), cm['n'])
            ns = list(alts.values())
            if len(ns) != len(set(ns)):
                return True
    return False


def local_tie(parsed_a, parsed_b, label, inv, prop):
    """do the alternatives of ONE constraint (shape, direction, property) tie in count?  The alternatives printed by the two runs
    are put together: of two tied alternatives each run prints only the one it chose, so the tie shows in the union only."""
    alts = {}
    for parsed in (parsed_a, parsed_b):
        for sh in parsed['shapes']:
            if sh['label'] != label:
                continue
            for st in sh['stmts']:
                if st['inv'] != inv or st['prop'] != prop:
                    continue
                if st['n'] is not None and st['has_fig'] and len(st['types']) == 1:
                    alts.setdefault((st['types'][0], st['card']), st['n'])
                for cm in st['comments']:
                    if 'example' not in cm and cm['n'] is not None:
                        alts.setdefault((cm['ty'], cm['card']), cm['n'])
    ns = [n for (ty, card), n in alts.items()]
    return len(ns) != len(set(ns))


def tie_explained(ev0, ev):
    """the two fact sets differ only by alternatives of one (direction, property) that carry the same count: which of
    several equally frequent alternatives is printed depends on the order of arrival (finding F-C09-1)"""
    for lab in set(ev0) | set(ev):
        a = ev0.get(lab, (None, set()))[1] - ev.get(lab, (None, set()))[1]
        b = ev.get(lab, (None, set()))[1] - ev0.get(lab, (None, set()))[1]
        if not a and not b:
            continue
        ka = sorted((f[0], f[1], f[4]) for f in a)
        kb = sorted((f[0], f[1], f[4]) for f in b)
        if ka != kb:
            return False
    return True


def run(ctx):
    rng = random.Random(ctx.seed * 86028121 + 9)
    kf = F.load("C09")
    n = 200 if ctx.tier == "quick" else 4000
    cases, groups = [], []
    for i in range(n):
        schema = rng.random() < 0.4
        g = gen.gen_schema_graph(rng) if schema else gen.gen_graph(rng)
        cfg = gen.gen_cfg(rng, g, presentation=False, allow_cap=False, allow_or=True)
        cfg['report'] = 'mixed'
        cfg['disable_comments'] = False
        cfg['disable_exact'] = False      # a generalised '+' line carries the figure of its exact cardinality (documented)
        if i % 3 == 0:
            # the IRI stem of a shape is a function of the set of its instances, not of their order: instances in several schemes / hosts
            cfg['detect_min_iri'] = True
            ren = {}
            def alt(t):
                if t[0] == 'I' and t[1].startswith(EX + 'n'):
                    if t[1] not in ren:
                        ren[t[1]] = rng.choice([t[1], 'urn:isbn:' + t[1][len(EX):], 'http://example.com/' + t[1][len(EX):], 'http://example.org/books/' + t[1][len(EX):],
                                                        # below another instance's IRI: `.../n0` is then a proper prefix of `.../n0/n3` (the fold must commute there too)
                                                        EX + 'n0/' + t[1][len(EX):], EX + 'n0/' + t[1][len(EX):]] if t[1] != EX + 'n0' else [t[1]])
                    return ('I', ren[t[1]])
                return t
            g = [(alt(s_), p_, alt(o_)) for s_, p_, o_ in g]
        variants = []
        for _ in range(3):
            g2 = list(g)
            rng.shuffle(g2)
            variants.append(('perm', g2, None))
        g3, m = rename_bnodes(rng, g)
        rng.shuffle(g3)
        variants.append(('rename', g3, m))
        idx0 = len(cases)
        cases.append((g, cfg))
        for kind, gv, m in variants:
            cases.append((gv, cfg))
        groups.append((idx0, schema, variants))
    # directed: one property whose number of values differs between instances, with a clear majority (no tie between the exact
    # cardinalities); keep_less_specific off, so that the exact cardinality chosen must be the most frequent one in every order
    for i in range(40 if ctx.tier == "quick" else 600):
        ninst = rng.randint(3, 6)
        major, minor = rng.sample([1, 2, 3], 2)
        counts = [major] * (ninst - 1) + [minor]
        if ninst >= 5 and rng.random() < 0.5:
            counts[-2] = 6 - major - minor           # a third cardinality, once
        g = []
        for j, c in enumerate(counts):
            g.append((I('d%d' % j), RDF_TYPE, I('D')))
            for v in range(c):
                g.append((I('d%d' % j), EX + 'val', L('v%d' % v) if i % 2 else I('o%d_%d' % (j, v))))
        cfg = gen.gen_cfg(rng, g, presentation=False, allow_cap=False, allow_ignore=False)
        cfg.update(report='mixed', disable_comments=False, disable_exact=False, keep_less_specific=False, th=(0, 1), target_mode='all', targets=None)
        variants = []
        for _ in range(4):
            g2 = list(g)
            rng.shuffle(g2)
            variants.append(('perm', g2, None))
        # the instance with the rare cardinality declared first / last
        rare = [t for t in g if t[0] == I('d%d' % (ninst - 1))]
        rest = [t for t in g if t[0] != I('d%d' % (ninst - 1))]
        variants.append(('perm', rare + rest, None))
        variants.append(('perm', rest + rare, None))
        idx0 = len(cases)
        cases.append((g, cfg))
        for kind, gv, m in variants:
            cases.append((gv, cfg))
        groups.append((idx0, False, variants))
    if ctx.tier == "thorough":
        # all permutations of small documents
        for i in range(60):
            g = gen.gen_graph(rng, nclasses=2, ninst=2, nprops=2, maxcard=2)[:6]
            cfg = gen.gen_cfg(rng, g, presentation=False, allow_cap=False, allow_or=True)
            cfg['report'] = 'mixed'
            cfg['disable_comments'] = False
            cfg['disable_exact'] = False
            idx0 = len(cases)
            cases.append((g, cfg))
            variants = []
            for perm in itertools.permutations(g):
                variants.append(('perm', list(perm), None))
                cases.append((list(perm), cfg))
            groups.append((idx0, False, variants))
    ir, dis = base.correspondence(ctx, cases)
    viol, reproduced = [], set()
    stats = {"pairs": 0, "pairs_without_tie": 0, "schema_consistent": 0, "renamings": 0}
    nontriv = 0
    for idx0, schema, variants in groups:
        g, cfg = cases[idx0]
        r0 = ir[idx0]
        if r0[0] != 'ok':
            viol.append({"what": "implementation gave no result", "outcome": list(r0[:3]), **pipeline.case_json(g, cfg)})
            continue
        ev0, ch0 = evidence(r0[1]), chosen(r0[1])
        stats["schema_consistent"] += schema
        for k, (kind, gv, m) in enumerate(variants):
            r = ir[idx0 + 1 + k]
            stats["pairs"] += 1
            stats["renamings"] += kind == 'rename'
            if r[0] != 'ok':
                viol.append({"what": "implementation gave no result on the %s variant" % kind, "outcome": list(r[:3]), **pipeline.case_json(gv, cfg)})
                continue
            ev, ch = evidence(r[1]), chosen(r[1])
            tie = has_tie(r0[1]) or has_tie(r[1])
            # (a) shapes, instance counts and constraint keys: always equal
            hdr0 = {lab: v[0] for lab, v in ev0.items()}
            hdr = {lab: v[0] for lab, v in ev.items()}
            stems0 = {sh['label']: sh.get('stem') for sh in r0[1]['shapes']}
            stems = {sh['label']: sh.get('stem') for sh in r[1]['shapes']}
            if stems != stems0 and set(stems) == set(stems0):
                lab = next(l for l in stems if stems[l] != stems0[l])
                viol.append({"what": "the IRI stem of %s differs after %s: %r vs %r" % (lab, kind, stems0[lab], stems[lab]), "variant_nt": to_nt(gv),
                             **pipeline.case_json(g, cfg)})
                continue
            keys0 = {sh['label']: set(base.shape_keys(sh, cfg)) for sh in r0[1]['shapes']}
            keys = {sh['label']: set(base.shape_keys(sh, cfg)) for sh in r[1]['shapes']}
            if (hdr != hdr0 or keys != keys0) and cfg['remove_empty'] and all(hdr.get(l, hdr0.get(l)) == hdr0.get(l, hdr.get(l)) for l in set(hdr) | set(hdr0)):
                # only shapes that exist in one run and not in the other, and non-literal keys: a reference to a removed shape took
                # its constraint with it in one order of arrival and not in the other (F-C02-2 with a tie)
                diff = [k for l in set(keys) | set(keys0) for k in keys.get(l, set()) ^ keys0.get(l, set())]
                fid = F.match(kf, {"kind": "order_dependent_keys", "cfg": cfg, "keys": diff, "a_shape_was_removed": True})
                if fid:
                    reproduced.add(fid)
                    continue
            if hdr != hdr0 or keys != keys0:
                viol.append({"what": "shapes / instance counts / constraint keys differ after %s" % kind,
                             "headers": [repr(hdr0)[:300], repr(hdr)[:300]],
                             "keys": {l: [sorted(map(repr, keys0.get(l, set()) ^ keys.get(l, set())))[:6]] for l in set(keys) | set(keys0) if keys.get(l) != keys0.get(l)},
                             "variant_nt": to_nt(gv), **pipeline.case_json(g, cfg)})
                continue
            # (b) no figure may contradict: the same (direction, property, type, cardinality) carries the same count in both runs
            contradiction = None
            for lab in ev:
                f0 = {k[:4]: k[4] for k in ev0[lab][1]}
                for k in ev[lab][1]:
                    if k[:4] in f0 and f0[k[:4]] != k[4] and k[2] != 'NONLITERAL':
                        contradiction = (lab, k, f0[k[:4]])
            if contradiction:
                viol.append({"what": "a figure changes after %s" % kind, "fact": repr(contradiction), "variant_nt": to_nt(gv), **pipeline.case_json(g, cfg)})
                continue
            # (c) the set of printed facts: equal unless alternatives tie (then which of the tied ones is printed depends on the order)
            if ev != ev0:
                d = {lab: (sorted(map(repr, ev0.get(lab, (None, set()))[1] ^ ev.get(lab, (None, set()))[1]))[:6]) for lab in set(ev) | set(ev0)
                     if ev.get(lab) != ev0.get(lab)}
                differing = {(lab, f[0], f[1]) for lab in set(ev) | set(ev0) for f in ev0.get(lab, (None, set()))[1] ^ ev.get(lab, (None, set()))[1]}
                tie = tie or all(local_tie(r0[1], r[1], lab, inv_, prop_) for lab, inv_, prop_ in differing)
                obs = {"kind": "evidence", "diff": d, "cfg": cfg, "triples": g, "variant": gv, "tie": tie}
                fid = F.match(kf, obs)
                if fid:
                    reproduced.add(fid)
                else:
                    viol.append({"what": "evidence differs after %s" % ("permuting the statements" if kind == 'perm' else "renaming blank nodes"),
                                 "difference": d, "variant_nt": to_nt(gv), **pipeline.case_json(g, cfg)})
                continue
            tie = has_tie(r0[1]) or has_tie(r[1])
            if not tie:
                stats["pairs_without_tie"] += 1
            if ch != ch0:
                # a tie excuses a different choice only for the constraint whose own alternatives tie
                differing = {(lab, c[0], c[1]) for lab in set(ch) | set(ch0) for c in set(ch.get(lab, [])) ^ set(ch0.get(lab, []))}
                tie = all(local_tie(r0[1], r[1], lab, inv, prop) for lab, inv, prop in differing)
                stats["choices_differing_with_local_tie"] = stats.get("choices_differing_with_local_tie", 0) + tie
                if True:
                    obs = {"kind": "choice", "cfg": cfg, "triples": g, "variant": gv, "schema": schema, "tie": tie, "ch0": ch0, "ch": ch}
                    fid = F.match(kf, obs)
                    if fid:
                        reproduced.add(fid)
                    else:
                        viol.append({"what": "chosen constraints differ after %s although no alternatives tie" % kind,
                                     "original": {k: repr(v)[:400] for k, v in ch0.items() if ch.get(k) != v},
                                     "variant": {k: repr(v)[:400] for k, v in ch.items() if ch0.get(k) != v},
                                     "variant_nt": to_nt(gv), **pipeline.case_json(g, cfg)})
        nontriv += len(g) >= 4 and bool(r0[1]['shapes'])
    # ---------------- two classes with one local name in different namespaces (both shapes get the same label: finding F-C05-1); which class
    # a label stands for, and the figures under it, must still not depend on the order of the statements: compared as multisets
    from shexer.shaper import Shaper
    from shexer import consts as C
    import shex_text
    stats["homonymous_class_documents"] = 0
    for i in range(12 if ctx.tier == "quick" else 120):
        A, B = 'http://xmlns.example/foaf/', 'http://schema.example/'
        g = []
        na, nb = rng.randint(2, 4), rng.randint(2, 4)
        for k in range(na):
            g += [(I('fa%d' % k), RDF_TYPE, ('I', A + 'Person')), (I('fa%d' % k), EX + 'nick', L('n%d' % k))]
            if k:
                g.append((I('fa%d' % k), EX + 'knows', I('fa0')))
        for k in range(nb):
            g += [(I('sb%d' % k), RDF_TYPE, ('I', B + 'Person')), (I('sb%d' % k), EX + 'email', L('m%d' % k)), (I('sb%d' % k), EX + 'email', L('x%d' % k))]
            if k and i % 2:
                g.append((I('sb%d' % k), EX + 'boss', I('sb0')))
        outs = []
        for _ in range(4):
            g2 = list(g)
            rng.shuffle(g2)
            try:
                txt = Shaper(raw_graph=to_nt(g2), input_format=C.NT, all_classes_mode=True, instances_report_mode=C.MIXED_INSTANCES,
                             inverse_paths=(i % 3 == 0)).shex_graph(string_output=True)
                par = shex_text.parse(txt)
                ms = sorted((sh['label'], sh['n'], tuple(sorted({(st['inv'], st['prop']) for st in sh['stmts']})))      # (ties may pick another alternative: F-C09-1)
                            for sh in par['shapes'])
            except Exception as e:
                ms = "%s: %s" % (type(e).__name__, str(e)[:120])
            outs.append((ms, g2))
        stats["homonymous_class_documents"] += 1
        for ms, g2 in outs[1:]:
            if ms != outs[0][0]:
                viol.append({"what": "two classes with one local name (%sPerson, %sPerson): labels / figures of the shapes depend on the order of the statements" % (A, B),
                             "first_order": repr(outs[0][0])[:700], "other_order": repr(ms)[:700], "nt_first": to_nt(outs[0][1]), "nt_other": to_nt(g2)})
                break
    return base.std_result(ctx, cases, viol, dis, base.known_lines(kf, reproduced), stats, nontriv, [],
                           "per random graph (40 % schema-consistent) and configuration: 3 random permutations of the document and one blank-node "
                           "relabelling (also permuted); 40 (600) classes whose instances differ in the number of values of one property, rare cardinality first / last, "
                           "keep_less_specific off; thorough adds all permutations of 60 documents of <= 6 statements; evidence sets must be "
                           "equal always, chosen constraints when no alternatives tie in count (always on schema-consistent graphs); "
                           "non-trivial = at least 4 statements and one shape", DEPS)
