"""C14 — inverse paths add incoming-link constraints and leave the rest untouched.

proof : Props/C14.lean
tie   : ordered correspondence with inverse_paths on and off
search: three fresh implementation runs per graph: (G, inverse), (G, direct), (reverse(G), direct)
"""
import random, json
from common import *
import gen, pipeline, model, findings as F, oracle
from props import base, c01

PROPS_MODULES = ["ShexerModel.Props.C14", "ShexerModel.Props.C14b", "ShexerModel.Props.GenStrTune"]
DEPS = []
replay = base.replay


def reverse_graph(triples, inst_prop):
    """keep instantiation triples; reverse every other triple with a non-literal object; drop literal-object triples"""
    out = []
    for s, p, o in triples:
        if p == inst_prop:
            out.append((s, p, o))
        elif o[0] in 'IB':
            out.append((o, p, s))
    return out


def stmt_sig(st, with_comments=True):
    sig = (st['prop'], tuple(st['types']), st['card'], st['n'])
    if with_comments:
        sig += (tuple((c['ty'], c['card'], c['n']) for c in st['comments'] if 'example' not in c),)
    return sig


def iri_only_graph(rng):
    g = gen.gen_graph(rng, bnodes=False)
    return [(s, p, o) for s, p, o in g if s[0] == 'I' and o[0] != 'B']


def run(ctx):
    rng = random.Random(ctx.seed * 49979687 + 14)
    kf = F.load("C14")
    n = 250 if ctx.tier == "quick" else 6000
    cases, triples_of = [], []
    stats_typed_classes = [0]
    for i in range(n):
        g = iri_only_graph(rng) if rng.random() < 0.75 else gen.gen_graph(rng)
        cfg = gen.gen_cfg(rng, g, presentation=False, allow_cap=False, allow_ignore=False, allow_or=True)
        if rng.random() < 0.2:
            # a class that is itself an instance (ex:Dog a ex:Species . ex:rex a ex:Dog): its shape gets incoming typing arcs `^ rdf:type [ex:rex]`
            cl = [c for c in gen.classes_of(g, cfg['inst_prop']) if all(t[0][0] == 'I' for t in g if t[1] == cfg['inst_prop'] and t[2] == ('I', c))]
            if cl:
                g = g + [(('I', rng.choice(cl)), cfg['inst_prop'], I('Species'))]
                g = list(dict.fromkeys(g))
                stats_typed_classes[0] += 1
        if i % 12 == 11:
            # a feature held by exactly t*N instances where the float product t*N lies one ulp above n (0.56*25 = 14.000000000000002): n/N >= t holds,
            # and it must hold in the run with and in the run without the option alike
            tn, N_, n_ = rng.choice([(56, 25, 14), (28, 25, 7), (14, 50, 7), (55, 100, 55), (7, 100, 7), (35, 20, 7), (5, 10, 5)])
            g = []
            for k in range(N_):
                g.append((I('bd%d' % k), RDF_TYPE, I('Bound')))
                if k < n_:
                    g.append((I('bd%d' % k), EX + 'out', I('bd%d' % ((k + 1) % N_))))
                    g.append((I('bd%d' % ((k + 3) % N_)), EX + 'back', I('bd%d' % k)))
            g = list(dict.fromkeys(g))
            rng.shuffle(g)
            cfg = dict(gen.default_cfg(), th=[tn, 100])
        cfg['report'] = 'mixed'
        cfg['disable_comments'] = False
        cfg['inverse'] = True
        c_dir = dict(cfg, inverse=False)
        rg = reverse_graph(g, cfg['inst_prop'])
        cases += [(g, cfg), (g, c_dir), (rg, c_dir)]
    ir, dis = base.correspondence(ctx, cases)
    viol = []
    stats = {"inverse_statements": 0, "compared_with_reverse": 0, "graphs_with_bnodes": 0, "incoming_typing_constraints": 0,
             "graphs_with_a_typed_class_added": stats_typed_classes[0]}
    nontriv = 0
    samples = []
    for i in range(0, len(cases), 3):
        (g, cfg), r_inv, r_dir, r_rev = cases[i], ir[i], ir[i + 1], ir[i + 2]
        if any(r[0] != 'ok' for r in (r_inv, r_dir, r_rev)):
            viol.append({"what": "implementation gave no result", "outcomes": [list(r[:3]) for r in (r_inv, r_dir, r_rev)], **pipeline.case_json(g, cfg)})
            continue
        s_inv = {sh['label']: sh for sh in r_inv[1]['shapes']}
        s_dir = {sh['label']: sh for sh in r_dir[1]['shapes']}
        s_rev = {sh['label']: sh for sh in r_rev[1]['shapes']}
        has_b = any(t[0][0] == 'B' or t[2][0] == 'B' for t in g)
        stats["graphs_with_bnodes"] += has_b
        # 1. direct part untouched (labels, instance counts, outgoing constraints in order)
        for lab, sh in s_dir.items():
            if lab not in s_inv:
                viol.append({"what": "shape disappears when inverse_paths is enabled", "label": lab, **pipeline.case_json(g, cfg)})
                continue
            if sh['n'] != s_inv[lab]['n']:
                viol.append({"what": "instance count changes with inverse_paths", "label": lab, **pipeline.case_json(g, cfg)})
            d0 = [stmt_sig(st) for st in sh['stmts']]
            d1 = [stmt_sig(st) for st in s_inv[lab]['stmts'] if not st['inv']]
            if d0 != d1:
                viol.append({"what": "outgoing constraints change with inverse_paths", "label": lab, "without": repr(d0)[:600], "with": repr(d1)[:600],
                             **pipeline.case_json(g, cfg)})
        for lab in s_inv:
            if lab not in s_dir and any(not st['inv'] for st in s_inv[lab]['stmts']):
                viol.append({"what": "shape with outgoing constraints appears only with inverse_paths", "label": lab, **pipeline.case_json(g, cfg)})
        # 1b. the key of a typing constraint is written the same way in both directions: `^ inst [x]` like `inst [C]` (a value set)
        for lab, sh in s_inv.items():
            for st in sh['stmts']:
                if st['inv'] and st['prop'] == cfg['inst_prop']:
                    stats["incoming_typing_constraints"] += 1
                    if not all(st.get('value_set', [True])):
                        viol.append({"what": "incoming typing constraint is not written as a value set: its key differs from the outgoing form `%s [x]`" % cfg['inst_prop'],
                                     "label": lab, "written": " ".join(st['type_toks']), "shexc": r_inv[2], **pipeline.case_json(g, cfg)})
        # 2. incoming constraints = outgoing constraints of the reversed graph (IRI-only graphs, and no
        #    instance used as a class value, as the property stipulates)
        classes = set(o[1] for s, p, o in g if p == cfg['inst_prop'])
        subjects = set(s[1] for s, p, o in g if p == cfg['inst_prop'])
        if not has_b and not (classes & subjects):
            for lab, sh in s_inv.items():
                inv_sts = [stmt_sig(st) for st in sh['stmts'] if st['inv']]
                stats["inverse_statements"] += len(inv_sts)
                rev_sts = [stmt_sig(st) for st in s_rev.get(lab, {'stmts': []})['stmts'] if st['prop'] != cfg['inst_prop']]
                stats["compared_with_reverse"] += 1
                if sorted(inv_sts) != sorted(rev_sts):
                    viol.append({"what": "incoming constraints differ from the outgoing constraints of the reversed graph", "label": lab,
                                 "incoming": repr(inv_sts)[:600], "reversed_outgoing": repr(rev_sts)[:600], **pipeline.case_json(g, cfg)})
            nontriv += any(st['inv'] for sh in s_inv.values() for st in sh['stmts'])
        if len(samples) < 1 and len(g) < 10 and any(st['inv'] for sh in s_inv.values() for st in sh['stmts']):
            samples.append({"nt": to_nt(g), "shexc_with_inverse": r_inv[2]})
    # ---------------- the same in the SHACL form: the property shapes with a direct path are those of the run without the option (disjunctions
    # included: a `sh:or` on an incoming link must sit under sh:inversePath, not appear as a new outgoing constraint)
    import impl, shacl_text
    from shexer import consts as _C14
    stats["shacl_pairs"] = 0
    stats["shacl_inverse_property_shapes"] = 0
    for i in range(0, min(len(cases), 3 * (80 if ctx.tier == "quick" else 1500)), 3):
        (g, cfg) = cases[i]
        if any(t[0][0] == 'B' or t[2][0] == 'B' for t in g):
            continue            # blank nodes in value sets: F-C04-4
        cfg_s = dict(cfg, disable_or=rng.random() < 0.4)
        docs = []
        for c in (cfg_s, dict(cfg_s, inverse=False)):
            r = impl.run_shaper(to_nt(g), c, output_format=_C14.SHACL_TURTLE)
            docs.append(r)
        if docs[0][0] != 'ok' or docs[1][0] != 'ok':
            if docs[0][0] != docs[1][0]:
                viol.append({"what": "SHACL: result with inverse_paths %s, without %s" % (docs[0][:2], docs[1][:2]), **pipeline.case_json(g, cfg_s)})
            continue
        try:
            p_inv, p_dir = shacl_text.parse(docs[0][1]), shacl_text.parse(docs[1][1])
        except Exception as e:
            viol.append({"what": "SHACL not parseable: %s" % str(e)[:120], **pipeline.case_json(g, cfg_s)})
            continue
        stats["shacl_pairs"] += 1
        key = lambda d: (str(d['path']), repr(sorted(map(repr, d['restr']))), str(d['min']), str(d['max']))
        a = {s_['iri']: sorted(key(d) for d in s_['props'] if not d['inverse']) for s_ in p_inv['shapes']}
        b = {s_['iri']: sorted(key(d) for d in s_['props'] if not d['inverse']) for s_ in p_dir['shapes']}
        stats["shacl_inverse_property_shapes"] += sum(1 for s_ in p_inv['shapes'] for d in s_['props'] if d['inverse'])
        for iri_, props in b.items():
            if iri_ in a and a[iri_] != props:
                viol.append({"what": "SHACL: the property shapes with a direct path change with inverse_paths", "shape": iri_, "without": repr(props)[:500],
                             "with": repr(a[iri_])[:500], "shacl_with_inverse": docs[0][1], **pipeline.case_json(g, cfg_s)})
                break
    # ---------------- the typing statements in a file of their own (instances_file_input): a class whose instances are only ever objects
    # in the graph has incoming features only - with inverse_paths its shape is there and equals the outgoing constraints of the
    # reversed graph
    import tempfile, os
    stats["instances_file_triples"] = 0
    tdir = tempfile.mkdtemp(prefix="verif_c14_")
    try:
        for i in range(40 if ctx.tier == "quick" else 600):
            g = iri_only_graph(rng)
            # a class of nodes that are never subjects
            for k in range(rng.randint(1, 3)):
                g.append((I('sink%d' % k), RDF_TYPE, I('Sink')))
                # pointed to by nodes WITHOUT a class: the incoming constraint is a plain node kind, so no removed shape can take it along
                g.append((I('usrc%d' % rng.randint(0, 2)), EX + 'into', I('sink%d' % k)))
            g = list(dict.fromkeys(g))
            typing = [t for t in g if t[1] == RDF_TYPE]
            rest = [t for t in g if t[1] != RDF_TYPE]
            if not typing or not rest:
                continue
            ipath = os.path.join(tdir, "inst%d.nt" % i)
            open(ipath, "w").write(to_nt(typing))
            cfg = gen.gen_cfg(rng, g, presentation=False, allow_cap=False, allow_ignore=False)
            # empty shapes are kept: with removal a reference to a removed shape takes its constraint along (F-C02-2) and the two runs remove
            # different shapes
            cfg.update(report='mixed', disable_comments=False, inverse=True, inst_prop=RDF_TYPE, remove_empty=rng.random() < 0.7)
            cfg.pop('inst_prop_spelled', None)
            rrest = reverse_graph(rest, RDF_TYPE)
            def run_files(tr, c, tag):
                from shexer.shaper import Shaper
                from shexer import consts as C
                import impl, shex_text
                gpath = os.path.join(tdir, "g%d_%s.nt" % (i, tag))
                open(gpath, "w").write(to_nt(tr))
                try:
                    res, hang = impl.guarded(lambda: Shaper(graph_file_input=gpath, input_format=C.NT, instances_file_input=ipath, **impl.shaper_kwargs(c)).shex_graph(
                        string_output=True, acceptance_threshold=c['th'][0] / c['th'][1]))
                    if hang:
                        return hang
                    return ('ok', shex_text.parse(res), res)
                except Exception as e:
                    return ('exc', type(e).__name__, str(e)[:150])
            rs = [run_files(rest, cfg, "a"), run_files(rrest, dict(cfg, inverse=False), "b")]
            stats["instances_file_triples"] += 1
            if rs[0][0] != 'ok' or rs[1][0] != 'ok':
                viol.append({"what": "implementation gave no result with instances_file_input", "outcomes": [list(r[:3]) for r in rs], **pipeline.case_json(g, cfg)})
                continue
            s_inv = {sh['label']: sh for sh in rs[0][1]['shapes']}
            s_rev = {sh['label']: sh for sh in rs[1][1]['shapes']}
            for lab, sh in s_rev.items():
                if not lab.endswith('/Sink'):
                    continue      # the other classes may lose constraints with the shapes they refer to (F-C02-2); the sink class cannot
                # predicate and count only: which of IRI / @shape is printed depends on which shapes the two runs remove as empty (F-C02-2)
                rev_sts = sorted((st['prop'], st['n']) for st in sh['stmts'] if st['n'] is not None)
                inv_sts = sorted((st['prop'], st['n']) for st in s_inv.get(lab, {'stmts': []})['stmts'] if st['inv'] and st['n'] is not None)
                if rev_sts != inv_sts:
                    viol.append({"what": "typing statements in a separate file: the incoming constraints of %s differ from the outgoing constraints of the "
                                         "reversed graph (shape %s in the inverse run)" % (lab, "present" if lab in s_inv else "ABSENT"),
                                 "incoming": repr(inv_sts)[:500], "reversed_outgoing": repr(rev_sts)[:500], "instances_file": to_nt(typing), **pipeline.case_json(rest, cfg)})
                    break
    finally:
        import shutil
        shutil.rmtree(tdir, ignore_errors=True)
    # ---------------- examples_mode must not touch the incoming constraints (links from nodes that are no instances included)
    stats["examples_pairs"] = 0
    ex_cases = []
    for i in range(60 if ctx.tier == "quick" else 900):
        g = gen.gen_graph(rng, bnodes=rng.random() < 0.3)
        # incoming links from nodes without a class
        tgt = [s_ for s_, p_, o_ in g if p_ == RDF_TYPE and s_[0] == 'I']
        for k in range(rng.randint(1, 3)):
            if tgt:
                g.append((I('untyped%d' % k), EX + rng.choice(['p0', 'cites']), rng.choice(tgt)))
        g = list(dict.fromkeys(g))
        cfg = gen.gen_cfg(rng, g, presentation=False, allow_cap=False, allow_ignore=False)
        cfg.update(report='mixed', disable_comments=False, inverse=True)
        ex_cases += [(g, dict(cfg, examples=None)), (g, dict(cfg, examples=rng.choice(['shape', 'cons', 'all'])))]
    ex_res = pipeline.run_impl(ex_cases)
    for i in range(0, len(ex_cases), 2):
        (g, cfg_e), r0, r1 = ex_cases[i + 1], ex_res[i], ex_res[i + 1]
        stats["examples_pairs"] += 1
        if r0[0] != 'ok' or r1[0] != 'ok':
            viol.append({"what": "implementation gave no result", "outcomes": [list(r0[:3]), list(r1[:3])], **pipeline.case_json(g, cfg_e)})
            continue
        a = {sh['label']: (sh['n'], sorted((st['inv'],) + stmt_sig(st) for st in sh['stmts'])) for sh in r0[1]['shapes']}
        b = {sh['label']: (sh['n'], sorted((st['inv'],) + stmt_sig(st) for st in sh['stmts'])) for sh in r1[1]['shapes']}
        if a != b:
            lab = next(l for l in set(a) | set(b) if a.get(l) != b.get(l))
            viol.append({"what": "with inverse_paths, examples_mode=%s changes the constraints of %s" % (cfg_e['examples'], lab),
                         "without_examples": repr(a.get(lab))[:600], "with_examples": repr(b.get(lab))[:600], **pipeline.case_json(g, cfg_e)})
    # ---------------- shapes removed as empty (instantiation namespace ignored, so a class can lose every constraint): the incoming
    # constraints of the shapes that stay are those of the run that keeps empty shapes, minus references to the removed ones
    stats["removal_pairs"] = 0
    rm_cases = []
    for i in range(60 if ctx.tier == "quick" else 900):
        g = iri_only_graph(rng)
        if i % 2:
            # a class without any feature (its shape is removed) next to classes whose instances are pointed to by other nodes
            for k in range(rng.randint(1, 2)):
                g.append((I('lonely%d' % k), RDF_TYPE, I('Lonely')))
            tgt = [s_ for s_, p_, o_ in g if p_ == RDF_TYPE and s_[1] != EX + 'lonely0' and s_[1] != EX + 'lonely1']
            for k in range(rng.randint(1, 4)):
                if tgt:
                    g.append((I('src%d' % k), EX + 'points', rng.choice(tgt)))
                    if rng.random() < 0.6:
                        g.append((rng.choice(tgt), EX + 'likes', I('lonely0')))      # an outgoing reference to the shape that will be removed
            g = list(dict.fromkeys(g))
        cfg = gen.gen_cfg(rng, g, presentation=False, allow_cap=False, allow_ignore=False)
        cfg.update(report='mixed', disable_comments=False, inverse=True, ignore_ns=[RDF], inst_prop=RDF_TYPE, target_mode='all', targets=None)
        if i % 2:
            cfg['th'] = (0, 1)
        rm_cases += [(g, dict(cfg, remove_empty=True)), (g, dict(cfg, remove_empty=False))]
    rm_res = pipeline.run_impl(rm_cases)
    for i in range(0, len(rm_cases), 2):
        (g, cfg_r), r1, r0 = rm_cases[i], rm_res[i], rm_res[i + 1]
        stats["removal_pairs"] += 1
        if r0[0] != 'ok' or r1[0] != 'ok':
            viol.append({"what": "implementation gave no result", "outcomes": [list(r0[:3]), list(r1[:3])], **pipeline.case_json(g, cfg_r)})
            continue
        kept = {sh['label'] for sh in r1[1]['shapes']}
        full = {sh['label']: sh for sh in r0[1]['shapes']}
        if kept == set(full):
            continue
        for sh in r1[1]['shapes']:
            ref = lambda st: any(t.startswith('%<') and t[2:-1] not in kept for t in st['types'])
            want = sorted(stmt_sig(st, False) for st in full[sh['label']]['stmts'] if st['inv'] and not ref(st))
            got = sorted(stmt_sig(st, False) for st in sh['stmts'] if st['inv'])
            if got != want:
                viol.append({"what": "removing empty shapes changes incoming constraints (of a shape that stays) which do not refer to a removed shape",
                             "label": sh['label'], "with_removal": repr(got)[:500], "without_removal": repr(want)[:500], "removed": sorted(set(full) - kept),
                             **pipeline.case_json(g, cfg_r)})
    # every incoming figure against the Lean Spec (covers graphs with blank nodes, where the reversed graph is no oracle)
    if ctx.spec_ok:
        inv_cases = [cases[i] for i in range(0, len(cases), 3)]
        v2, _, _, _, _, _ = c01.evaluate(ctx, inv_cases, F.load("C01"), check_spec=True)
        for v in v2:
            if v.get("fact", {}).get("inv"):
                v["what"] = "incoming-link figure: " + v["what"]
                viol.append(v)
    # how a value is written does not depend on the direction: the regenerated `str_of_target_element` has no such input (Props/GenStrTune)
    base.fragment_s_tie(ctx, dis, stats, ['serializer_str_of_target_element', 'serializer_tune_token'])
    return base.std_result(ctx, cases, viol, dis, base.known_lines(kf, set()), stats, nontriv, samples,
                           "per random graph (75 % IRI-only) and configuration: three fresh Shapers - G with inverse_paths, G without, "
                           "reverse(G) without; pairs examples_mode off / on with incoming links from untyped nodes; pairs remove_empty_shapes on / off "
                           "with the instantiation namespace ignored; non-trivial = the inverse run has at least one incoming constraint", DEPS,
                           ["graphs with blank nodes are compared on the direct part only (blank-node subjects of incoming links get no shape "
                            "reference, by design)"])
