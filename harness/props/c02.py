"""C02 — a shape holds exactly the features at or above the acceptance threshold.

proof : Props/C02.lean
tie   : ordered correspondence of the canonical shapes on every k/n threshold boundary
search: the key set / shape set of the implementation against `Spec.expectedKeys` (Lean, via the driver)
"""
import random, json
from common import *
import gen, pipeline, model, findings as F, oracle
from props import base

PROPS_MODULES = ["ShexerModel.Props.C02"]
DEPS = ["threshold_keeps"]
replay = base.replay


def make_cases(rng, n):
    cases = []
    for i in range(n):
        ip = rng.choice([RDF_TYPE, RDF_TYPE, RDF_TYPE, EX + 'inst'])
        g = gen.gen_graph(rng, inst_prop=ip) if rng.random() < 0.75 else gen.gen_schema_graph(rng, inst_prop=ip)
        base_cfg = gen.gen_cfg(rng, g, inst_prop=ip, presentation=False, allow_or=True)
        if rng.random() < 0.2:
            # shapes emptied and removed: the instantiation property is ignored, so a class survives only through other features
            base_cfg['ignore_ns'] = [RDF] if ip == RDF_TYPE else [EX]
            base_cfg['remove_empty'] = True
            base_cfg['inverse'] = rng.random() < 0.7
        if rng.random() < 0.25:
            g = list(dict.fromkeys(gen.spice_literals(rng, g)))      # awkward but legal lexical forms: the value class is the datatype, whatever the text
        ths = gen.threshold_grid(g, ip)
        for th in rng.sample(ths, min(3, len(ths))):
            c = dict(base_cfg)
            c['th'] = th
            cases.append((g, c))
    return cases


def check_case(g, cfg, parsed, spec, kf, reproduced, viol):
    a, b = cfg['th']
    lm = oracle.classes_for_labels(g, cfg)
    produced = {}
    for sh in parsed['shapes']:
        cl = lm.get(sh['label'])
        if not cl or len(cl) != 1:
            viol.append({"what": "shape label without a unique class", "label": sh['label'], **pipeline.case_json(g, cfg)})
            return
        if cl[0] in produced:
            viol.append({"what": "two shapes for one class", "class": cl[0], **pipeline.case_json(g, cfg)})
            return
        produced[cl[0]] = sh
    expected_shapes = []
    for c, (N, keys) in spec.items():
        exp = {k for k, n in keys.items() if n >= 1 and n * b >= a * N}
        if N >= 1 and (exp or not cfg['remove_empty']):
            expected_shapes.append(c)
        if c in produced:
            got = base.shape_keys(produced[c], cfg)
            if len(got) != len(set(got)):
                viol.append({"what": "two constraints for one key", "class": c, "keys": [list(k) for k in got], **pipeline.case_json(g, cfg)})
            for k in exp - set(got):
                obs = {"kind": "missing_key", "key": k, "class": c, "N": N, "counts": keys, "triples": g, "cfg": cfg, "parsed": parsed}
                fid = F.match(kf, obs)
                if fid:
                    reproduced.add(fid)
                else:
                    viol.append({"what": "key at or above the threshold is missing", "class": c, "key": list(k), "count": keys[k], "N": N,
                                 "threshold": [a, b], **pipeline.case_json(g, cfg)})
            for k in set(got) - exp:
                viol.append({"what": "key below the threshold (or never observed) is present", "class": c, "key": list(k),
                             "count": keys.get(k), "N": N, "threshold": [a, b], **pipeline.case_json(g, cfg)})
    if not cfg['remove_empty'] and cfg['target_mode'] == 'classes':
        for c in cfg['targets']:
            if c not in spec and c not in expected_shapes:
                expected_shapes.append(c)
    if set(expected_shapes) != set(produced):
        missing = set(expected_shapes) - set(produced)
        extra = set(produced) - set(expected_shapes)
        explained = set()
        for c in missing:
            # a shape is absent when every one of its keys is absent: attribute it to the findings that explain the keys
            N, keys = spec.get(c, (0, {}))
            exp = {k for k, n in keys.items() if n >= 1 and n * b >= a * N}
            fids = [F.match(kf, {"kind": "missing_key", "key": k, "class": c, "N": N, "counts": keys, "triples": g, "cfg": cfg, "parsed": parsed})
                    for k in exp]
            if exp and all(fids) and cfg['remove_empty']:
                explained.add(c)
                reproduced.update(fids)
        if (missing - explained) or extra:
            viol.append({"what": "set of shapes differs from the specification", "missing": sorted(missing - explained), "extra": sorted(extra),
                         **pipeline.case_json(g, cfg)})


def run(ctx):
    rng = random.Random(ctx.seed * 104729 + 2)
    kf = F.load("C02")
    cases = make_cases(rng, 350 if ctx.tier == "quick" else 5000)
    ir, dis = base.correspondence(ctx, cases)
    viol, reproduced = [], set()
    stats = {"thresholds": {}, "boundary_cases": 0, "shapes": 0}
    nontriv, samples, seen = 0, [], set()
    specs = base.spec_keys(cases) if ctx.spec_ok else [None] * len(cases)
    for (g, cfg), r, spec in zip(cases, ir, specs):
        if r[0] != 'ok':
            viol.append({"what": "implementation gave no result", "outcome": list(r[:3]), **pipeline.case_json(g, cfg)})
            continue
        stats["thresholds"]["%d/%d" % cfg['th']] = stats["thresholds"].get("%d/%d" % cfg['th'], 0) + 1
        stats["shapes"] += len(r[1]['shapes'])
        if spec is not None:
            a, b = cfg['th']
            bd = any(n * b == a * N and n > 0 for (N, keys) in spec.values() for n in keys.values())
            stats["boundary_cases"] += bd
            key = to_nt(g) + json.dumps(cfg, sort_keys=True, default=str)
            if key not in seen:
                seen.add(key)
                nontriv += bool(bd or any(0 < n < N for (N, keys) in spec.values() for n in keys.values()))
            check_case(g, cfg, r[1], spec, kf, reproduced, viol)
        if len(samples) < 2 and len(g) < 12:
            samples.append({"nt": to_nt(g), "threshold": list(cfg['th']), "shexc": r[2]})
    v3, d3, st3 = base.shape_map_cases(ctx, 40 if ctx.tier == "quick" else 500, "keys / figures")
    viol += v3
    dis += d3
    stats["shape_map_cases"] = st3
    # ---------------- directed: every boundary k/n of larger classes - a feature of exactly k of n instances at threshold k/n is kept,
    # and dropped at the next grid point (k+1)/n; (k, n) includes the pairs where k >= (k/n)*n fails in floating point
    nmax = 30 if ctx.tier == "quick" else 60
    pairs = [(k, n) for n in range(8, nmax + 1) for k in range(1, n) if (k / n) * n != k or rng.random() < (0.04 if ctx.tier == "quick" else 0.3)]
    stats["boundary_pairs"] = len(pairs)
    bcases = []
    for k, n in pairs:
        inv = rng.random() < 0.3
        g = [(I('m%d' % j), RDF_TYPE, I('M')) for j in range(n)]
        for j in range(k):
            g.append((I('m%d' % j), EX + 'flag', L('v')) if not inv else (I('x%d' % j), EX + 'flag', I('m%d' % j)))
        cfg = gen.default_cfg()
        cfg['inverse'] = inv
        cfg['keep_less_specific'] = rng.random() < 0.5
        bcases.append((g, dict(cfg, th=(k, n)), True, (k, n)))
        bcases.append((g, dict(cfg, th=(k + 1, n)), False, (k, n)))
    for (g, cfg, keep, (k, n)), r in zip(bcases, pipeline.run_impl([(g, c) for g, c, _, _ in bcases])):
        if r[0] != 'ok':
            viol.append({"what": "implementation gave no result", "outcome": list(r[:3]), **pipeline.case_json(g, cfg)})
            continue
        has = any(st['prop'] == EX + 'flag' for sh in r[1]['shapes'] for st in sh['stmts'])
        if has != keep:
            viol.append({"what": "a feature of %d of %d instances is %s at threshold %d/%d" % (k, n, "kept" if has else "dropped", cfg['th'][0], cfg['th'][1]),
                         "k": k, "n": n, **pipeline.case_json(g, cfg)})
    return base.std_result(ctx, cases, viol, dis, base.known_lines(kf, reproduced), stats, nontriv, samples,
                           "random graphs x random inference switches x 3 thresholds drawn from the k/n grid of the class sizes present "
                           "(plus 0, 1/2, 51/100, 1/3, 2/3, 1); non-trivial = some key has frequency strictly between 0 and 1 or sits exactly on "
                           "the threshold; directed: classes of 8..%d instances with a feature on exactly k of them at thresholds k/n (kept) and (k+1)/n (dropped), all "
                           "pairs where the float product (k/n)*n differs from k included" % (30 if ctx.tier == "quick" else 60), DEPS,
                           ["float division agrees with the exact rational comparison for the class sizes generated"])
