"""C11 — ShExC and SHACL outputs state the same constraints.

proof : Props/C11.lean (min/max table and node-kind table regenerated from the AST; structure of Shacl.emit)
tie   : Shacl.emit (model) vs the parsed SHACL Turtle of the implementation (multiset of property shapes per node shape)
search: the two serialisations of ONE Shaper compared with each other under the property's mapping
"""
import random, json, collections
from common import *
import gen, pipeline, model, impl, shex_text, shacl_text, findings as F, oracle
from props import base
from shexer import consts as C

PROPS_MODULES = ["ShexerModel.Props.C11", "ShexerModel.Props.GenStrTune"]
DEPS = ["min_occurs_from_cardinality", "max_occurs_from_cardinality", "MACRO_MAPPING", "cardinality_representation"]
replay = base.replay
SHNS = "http://www.w3.org/ns/shacl#"


def expected_from_shexc(parsed, cfg):
    """what the SHACL document must contain according to the ShExC document (the property's mapping)"""
    out = {}
    for sh in parsed['shapes']:
        props = []
        for st in sh['stmts']:
            card = st['card']
            if card == '*': mn, mx = None, None
            elif card == '+': mn, mx = 1, None
            elif card == '?': mn, mx = None, 1
            else:
                mn = mx = int(card[1:-1])
            def one(t):
                if t == 'IRI': return "nodeKind:" + SHNS + "IRI"
                if t == 'BNode': return "nodeKind:" + SHNS + "BlankNode"
                if t == 'NONLITERAL': return "nodeKind:" + SHNS + "BlankNodeOrIRI"
                if t.startswith('%<'): return "node:" + t[2:-1]
                return "datatype:" + t
            t = st['types'][0]
            if len(st['types']) > 1:        # a disjunction: one sh:or alternative per ShExC alternative
                restr = "or:" + ";".join(sorted(one(x) for x in st['types']))
            elif st['prop'] == cfg['inst_prop'] and st['type_toks'][0].startswith('['):      # a value set [class]; without brackets the token is a datatype
                restr = "in:" + t
            else:
                restr = one(t)
            props.append((st['inv'], st['prop'], restr, mn, mx))
        out[sh['label']] = props
    return out


def run(ctx):
    rng = random.Random(ctx.seed * 141650939 + 11)
    kf = F.load("C11")
    n = 600 if ctx.tier == "quick" else 8000
    cases = []
    for i in range(n):
        ip = rng.choice([RDF_TYPE, RDF_TYPE, EX + 'inst'])
        g = gen.gen_graph(rng, inst_prop=ip) if rng.random() < 0.7 else gen.gen_schema_graph(rng, inst_prop=ip)
        if rng.random() < 0.25:
            # percent-encoded local names (DBpedia style): '%' is also sheXer's internal shape-name marker
            ren = lambda t: ('I', t[1].replace(EX + 'C1', EX + 'Caf%C3%A9').replace(EX + 'C0', EX + '100%25_C')) if t[0] == 'I' else t
            g = [(ren(s_), p_, ren(o_)) for s_, p_, o_ in g]
        # a fifth of the cases with disjunctions enabled (beyond the property's stated domain: the SHACL writer renders them as sh:or
        # since the repair of the TypeError; compared implementation against implementation and against `Shacl.emit`, theorem `disjunction_alternatives`)
        cfg = gen.gen_cfg(rng, g, inst_prop=ip, presentation=False, allow_or=(i % 5 == 0))
        if i % 5 == 0:
            cfg['disable_or'] = False
            cfg['allow_redundant_or'] = rng.random() < 0.5
            cfg['inverse'] = cfg['inverse'] or rng.random() < 0.5
        cfg['report'] = 'mixed'
        cfg['disable_comments'] = False
        if i % 12 == 7:
            # a user namespace that equals the shapes namespace up to letter case (a vocabulary about geometric "Shapes"), declared first:
            # IRIs are case-sensitive, the labels of both documents must stay in the shapes namespace
            sn = cfg['shapes_ns']
            k = sn.rstrip('/#').rfind('/') + 1
            variant = sn[:k] + sn[k:].swapcase() if rng.random() < 0.5 else sn[:k] + sn[k:k + 1].upper() + sn[k + 1:]
            if variant != sn and variant not in cfg['ns_dict']:
                cfg['ns_dict'] = dict([(variant, 'fig')] + [(a, b) for a, b in cfg['ns_dict'].items() if b != 'fig'])
        cases.append((g, cfg))
    # one document whose ShExC text has more than 5000 lines (the serialisers write through a 5000-line buffer): 900 small classes
    big = []
    for k in range(900):
        big += [(I('big%d' % k), RDF_TYPE, I('Big%d' % k)), (I('big%d' % k), EX + 'p%d' % (k % 7), L('v')), (I('big%d' % k), EX + 'q', I('big%d' % ((k + 1) % 900)))]
    cfg_big = gen.default_cfg()
    cfg_big.update(report='mixed', disable_comments=False)
    cases.append((big, cfg_big))
    viol, dis, reproduced = [], [], set()
    stats = {"node_shapes": 0, "property_shapes": 0, "inverse_property_shapes": 0, "restrictions": {}}
    nontriv = 0
    from shexer.shaper import Shaper
    lines = []
    for i, (g, cfg) in enumerate(cases):
        lines += model.case_lines(g, cfg, 'shacl', "h%d" % i)
    mres = model.run_driver(lines) if ctx.driver_ok else {}
    samples = []
    for i, (g, cfg) in enumerate(cases):
        try:
            if i % 10 == 3 and not any(t[0][0] == 'B' or t[2][0] == 'B' for t in g):      # (rdflib relabels blank nodes: finding F-C19-1)
                # the same statements as a Turtle document that declares prefixes of its own which clash with the caller's and with the
                # default shapes prefix: the two serialisations must still name the same IRIs
                ttl = "@prefix ex: <http://clash.example.org/a/> .\n@prefix : <http://clash.example.org/b/> .\n@prefix xsd: <http://clash.example.org/c#> .\n" + to_nt(g)
                sh = Shaper(raw_graph=ttl, input_format=C.TURTLE, **impl.shaper_kwargs(cfg))
            else:
                sh = Shaper(raw_graph=to_nt(g), input_format=C.NT, **impl.shaper_kwargs(cfg))
            th = cfg['th'][0] / cfg['th'][1]
            res, hang = impl.guarded(lambda: (sh.shex_graph(string_output=True, acceptance_threshold=th, output_format=C.SHEXC),
                                              sh.shex_graph(string_output=True, acceptance_threshold=th, output_format=C.SHACL_TURTLE)))
            if hang:
                raise TimeoutError("shex_graph does not return (ShExC + SHACL of one Shaper, 60 s)")
            t_shex, t_shacl = res
            p_shex = shex_text.parse(t_shex)
            p_shacl = shacl_text.parse(t_shacl)
        except Exception as e:
            obs = {"kind": "exception", "exc": type(e).__name__, "msg": str(e)[:200], "cfg": cfg, "triples": g}
            fid = F.match(kf, obs)
            if fid:
                reproduced.add(fid)
            else:
                viol.append({"what": "no SHACL / ShExC result: %s %s" % (type(e).__name__, str(e)[:150]), **pipeline.case_json(g, cfg)})
            continue
        exp = expected_from_shexc(p_shex, cfg)
        got = {s['iri']: s for s in p_shacl['shapes']}
        stats["node_shapes"] += len(got)
        if set(exp) != set(got):
            viol.append({"what": "node shapes differ from the ShExC shapes", "shexc": sorted(exp), "shacl": sorted(got), **pipeline.case_json(g, cfg)})
            continue
        lm = oracle.classes_for_labels(g, cfg)
        for lab, props in exp.items():
            s = got[lab]
            cl = lm.get(lab)
            if cl and len(cl) == 1 and s['targetClass'] != [cl[0]]:
                viol.append({"what": "sh:targetClass is not the class of the shape", "shape": lab, "targetClass": s['targetClass'], "class": cl[0],
                             **pipeline.case_json(g, cfg)})
            a = collections.Counter(props)
            b = collections.Counter((d['inverse'], d['path'], "|".join(sorted(d['restr'])) or "none", d['min'], d['max']) for d in s['props'])
            stats["property_shapes"] += len(s['props'])
            stats["inverse_property_shapes"] += sum(1 for d in s['props'] if d['inverse'])
            for d in s['props']:
                for r in d['restr'] or ['none']:
                    k = r.split(":")[0]
                    stats["restrictions"][k] = stats["restrictions"].get(k, 0) + 1
                if d['n_paths'] != 1:
                    viol.append({"what": "property shape without exactly one path", "shape": lab, **pipeline.case_json(g, cfg)})
            if a != b:
                only_shex = list((a - b).elements())
                only_shacl = list((b - a).elements())
                obs = {"kind": "mismatch", "only_shex": only_shex, "only_shacl": only_shacl, "cfg": cfg, "triples": g}
                fid = F.match(kf, obs)
                if fid:
                    reproduced.add(fid)
                else:
                    viol.append({"what": "property shapes do not match the triple constraints", "shape": lab,
                                 "only_in_shexc": [list(map(str, x)) for x in only_shex][:5], "only_in_shacl": [list(map(str, x)) for x in only_shacl][:5],
                                 "shexc": t_shex, "shacl": t_shacl, **pipeline.case_json(g, cfg)})
        nontriv += any(len(p) >= 2 for p in exp.values())
        for o in p_shacl['sh_node_objects']:
            if o not in p_shacl['declared']:
                obs = {"kind": "dangling_reference", "ref": o, "cfg": cfg}
                fid = F.match(F.load("C05"), obs)
                if not fid:
                    viol.append({"what": "sh:node object is not a declared sh:NodeShape", "object": o, **pipeline.case_json(g, cfg)})
        # correspondence with Shacl.emit (not for the Turtle variant: rdflib hands the statements over in its own order, so ties fall differently)
        if mres and not (i % 10 == 3 and not any(t[0][0] == 'B' or t[2][0] == 'B' for t in g)):
            mshapes = {}
            cur = None
            for ln in mres.get("h%d" % i, []):
                f = ln.split("\t")
                if f[0] == 'NS':
                    cur = f[1]
                    mshapes[cur] = {'tc': f[2], 'props': collections.Counter()}
                elif f[0] == 'PS':
                    mshapes[cur]['props'][(f[1] == 'I', f[2], ("or:" + ";".join(sorted(f[3][3:].split(";")))) if f[3].startswith("or:") else f[3], None if f[4] == '-' else int(f[4]) if f[4] != 'BAD' else 'BAD',
                                           None if f[5] == '-' else int(f[5]) if f[5] != 'BAD' else 'BAD')] += 1
            ishapes = {lab: collections.Counter((d['inverse'], d['path'], "|".join(sorted(d['restr'])) or "none", d['min'], d['max']) for d in s['props'])
                       for lab, s in got.items()}
            if set(mshapes) != set(ishapes) or any(mshapes[k]['props'] != ishapes[k] for k in mshapes):
                dis.append({"what": "Shacl.emit (model) vs implementation", "model": {k: sorted(map(str, v['props'].elements()))[:6] for k, v in mshapes.items()},
                            "impl": {k: sorted(map(str, v.elements()))[:6] for k, v in ishapes.items()}, **pipeline.case_json(g, cfg)})
        if len(samples) < 1 and len(g) < 9:
            samples.append({"nt": to_nt(g), "shacl": t_shacl})
    # how ShExC writes a value (`[x]` for the instantiation property, a bare token otherwise) is regenerated from /repo (Props/GenStrTune)
    base.fragment_s_tie(ctx, dis, stats, ['serializer_str_of_target_element', 'serializer_tune_token'])
    return base.std_result(ctx, cases, viol, dis, base.known_lines(kf, reproduced), stats, nontriv, samples,
                           "random graphs and configurations (disable_or_statements at its default; in a fifth of the cases enabled: ShExC OR against sh:or; one document of 900 classes, > 5000 ShExC lines); both serialisations of one Shaper parsed "
                           "(ShExC by the harness parser, SHACL Turtle by rdflib) and compared per shape as multisets of (direction, predicate, "
                           "restriction, min, max); non-trivial = some shape has >= 2 constraints", DEPS,
                           ["sheXer's vocabulary choices pinned by golden files (sh:dataType spelling, sh:property [ sh:inversePath p ]) are the encoding under test"])
