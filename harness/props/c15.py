"""C15 — extraction from a SPARQL endpoint equals extraction from the same graph locally.

proof : Props/C15.lean (the per-node cache is transparent and never asks more; the neighbourhood fetch at depth 1 yields the
        triples of the selected nodes)
tie   : Endpoint model vs the implementation's query log and results
search: local run vs endpoint run (cache on / off) on an in-process SPARQL evaluator substituted for the HTTP client
"""
import random, json
from common import *
import gen, pipeline, model, impl, shex_text, findings as F
import fake_endpoint as FE
from props import base
from props.c09 import evidence, chosen, has_tie, tie_explained
from shexer import consts as C

PROPS_MODULES = ["ShexerModel.Props.C15", "ShexerModel.Props.GenStrUnprefix"]
DEPS = []
replay = base.replay


def gen_c15_graph(rng):
    g = gen.gen_schema_graph(rng) if rng.random() < 0.4 else gen.gen_graph(rng, bnodes=False)
    out = []
    for s, p, o in g:
        if s[0] != 'I' or o[0] == 'B':
            continue
        if o[0] == 'L':
            k = sum(map(ord, o[1])) % 50
            # plain strings that cannot be mistaken for another token kind, and integers (the result reader keeps no datatype)
            o = L("text %d" % k) if (o[3] or o[2] != XSD + 'integer') else ('L', str(k), XSD + 'integer', None)
        out.append((s, p, o))
    # IRIs of other schemes than http(s) in object (and, typed, in subject) position: a `"type": "uri"` binding is an IRI whatever its scheme
    subs = sorted({s for s, _, _ in out})
    if subs and rng.random() < 0.4:
        others = [('I', 'mailto:u%d@example.org' % rng.randint(0, 3)), ('I', 'urn:isbn:%d' % rng.randint(0, 3)), ('I', 'ftp://files.example.org/f%d' % rng.randint(0, 3))]
        for o in rng.sample(others, rng.randint(1, 3)):
            out.append((rng.choice(subs), EX + 'contact', o))
        cls = sorted({o for _, p, o in out if p == RDF_TYPE and o[0] == 'I'})
        if cls and rng.random() < 0.5:
            out.append((others[1], RDF_TYPE, rng.choice(cls)))
            out.append((others[1], EX + 'contact', others[0]))
    return list(dict.fromkeys(out))


def compare_shapes(ref, got, cfg):
    l0 = sorted((sh['label'], sh['n']) for sh in ref['shapes'])
    l1 = sorted((sh['label'], sh['n']) for sh in got['shapes'])
    if l0 != l1:
        return "shapes differ (label, instances): %s vs %s" % (l0[:6], l1[:6])
    if len({l for l, _ in l0}) != len(l0):
        return None       # duplicate labels (F-C05-1): the per-label comparison below has no meaning
    ev0, ch0 = evidence(ref), chosen(ref)
    ev, ch = evidence(got), chosen(got)
    hdr0 = {lab: v[0] for lab, v in ev0.items()}
    hdr = {lab: v[0] for lab, v in ev.items()}
    if hdr != hdr0:
        return "shape labels / instance counts differ: %s vs %s" % (repr(hdr0)[:200], repr(hdr)[:200])
    keys0 = {sh['label']: set(base.shape_keys(sh, cfg)) for sh in ref['shapes']}
    keys = {sh['label']: set(base.shape_keys(sh, cfg)) for sh in got['shapes']}
    if keys != keys0:
        lab = next(l for l in keys0 if keys.get(l) != keys0[l])
        return "constraint keys of %s differ: %s" % (lab, sorted(map(repr, keys0[lab] ^ keys[lab]))[:4])
    for lab in ev:
        f0 = {k[:4]: k[4] for k in ev0[lab][1]}
        for k in ev[lab][1]:
            if k[:4] in f0 and f0[k[:4]] != k[4] and k[2] != 'NONLITERAL':
                return "figure of %s %s differs: %s vs %s" % (lab, k[:4], f0[k[:4]], k[4])
    if not (has_tie(ref) or has_tie(got)):
        if {l: v[1] for l, v in ev.items()} != {l: v[1] for l, v in ev0.items()}:
            return None if tie_explained(ev0, ev) else "sets of printed facts (constraints and comments) differ"
        if ch != ch0:
            return "chosen constraints differ"
    return None


def run(ctx):
    from shexer.shaper import Shaper
    rng = random.Random(ctx.seed * 15000017 + 15)
    kf = F.load("C15")
    hit = set()
    viol, dis = [], []
    n = 120 if ctx.tier == "quick" else 2000
    stats = {"cases": n, "targets": {}, "inverse": 0, "capped": 0, "queries_cache_on": 0, "queries_cache_off": 0, "saved_by_cache": 0}
    cases = []
    for i in range(n):
        g = gen_c15_graph(rng)
        if not g:
            continue
        if rng.random() < 0.15:
            # two classes with the same local name in different namespaces
            ren = lambda t: ('I', 'http://other.org/ns#C0') if t == ('I', EX + 'C1') else t
            g = [(s_, p_, ren(o_)) if p_ == RDF_TYPE else (s_, p_, o_) for s_, p_, o_ in g]
            stats["same_local_name"] = stats.get("same_local_name", 0) + 1
        cfg = gen.gen_cfg(rng, g, presentation=False, allow_cap=False, allow_ignore=False)
        cfg['report'] = 'mixed'
        cfg['disable_comments'] = False
        cfg['disable_exact'] = False
        cfg['inst_prop'] = RDF_TYPE
        cfg.pop('inst_prop_spelled', None)
        if cfg['target_mode'] == 'classes' and rng.random() < 0.5:
            # the target classes in the three accepted spellings (prefixed where the dictionary allows it)
            cfg['ns_dict'] = dict(DEFAULT_NS)
            cfg['targets_spelled'] = [("ex:" + c[len(EX):]) if (c.startswith(EX) and rng.random() < 0.6) else ("<%s>" % c if rng.random() < 0.5 else c) for c in cfg['targets']]
        cases.append((g, cfg))
        nt = to_nt(g)
        kw = impl.shaper_kwargs(cfg)
        kw['infer_numeric_types_for_untyped_literals'] = True
        th = cfg['th'][0] / cfg['th'][1]
        tmode = cfg['target_mode']
        if rng.random() < 0.3:
            classes = sorted(gen.classes_of(g))
            props = sorted({p for _, p, _ in g if p != RDF_TYPE})
            items = []
            if classes:
                items.append("{FOCUS a <%s>}@<%sS1>" % (rng.choice(classes), EX))
            if props:
                items.append("{FOCUS <%s> _}@<%sS2>" % (rng.choice(props), EX))
            subs = sorted({s[1] for s, _, _ in g})
            items.append("<%s>@<%sS3>" % (rng.choice(subs), EX))
            if props:
                # a SPARQL selector whose variable is not lower case
                items.append('SPARQL "SELECT ?%s WHERE { ?%s <%s> ?o }"@<%sS4>' % (("Node",) * 2 + (rng.choice(props), EX)) if rng.random() < 0.5 else
                             'SPARQL "select ?theNode where { ?theNode <%s> ?Obj }"@<%sS4>' % (rng.choice(props), EX))
            rng.shuffle(items)
            kw = {k: v for k, v in kw.items() if k not in ('target_classes', 'all_classes_mode')}
            kw['shape_map_raw'] = "\n".join(items[: rng.randint(1, len(items))])
            tmode = 'shapemap'
        cap = None
        if rng.random() < 0.2 and tmode == 'classes':
            cap = rng.randint(1, 3)
            kw['instances_cap'] = cap
            stats["capped"] += 1
        stats["targets"][tmode] = stats["targets"].get(tmode, 0) + 1
        stats["inverse"] += cfg['inverse']
        rec = dict(pipeline.case_json(g, cfg), targets_mode=tmode, shape_map=kw.get('shape_map_raw'), instances_cap=cap)
        try:
            ref_text = Shaper(raw_graph=nt, input_format=C.NT, **kw).shex_graph(string_output=True, acceptance_threshold=th)
            ref = shex_text.parse(ref_text)
        except Exception as e:
            viol.append({"what": "local run failed: %s %s" % (type(e).__name__, str(e)[:120]), **rec})
            continue
        res = {}
        for cache_off in (False, True):
            with FE.serving(nt) as fe:
                try:
                    text = Shaper(url_endpoint=FE.URL, disable_endpoint_cache=cache_off, **kw).shex_graph(string_output=True, acceptance_threshold=th)
                    res[cache_off] = (shex_text.parse(text), text, len(fe.queries))
                except Exception as e:
                    res[cache_off] = ('exc', "%s %s" % (type(e).__name__, str(e)[:120]), len(fe.queries))
        # the model's request list vs the implementation's query log (class targets / all classes, no cap)
        if ctx.driver_ok and tmode in ('classes', 'all') and cap is None and res[False][0] != 'exc' and res[True][0] != 'exc':
            import re as _re
            def parse_log(qs):
                out = []
                for q in qs:
                    m = _re.match(r'^SELECT \?p \?o WHERE \{ <(.*)> \?p \?o \.\} $', q)
                    if m: out.append(('po', m.group(1))); continue
                    m = _re.match(r'^SELECT \?s \?p WHERE \{ \?s \?p <(.*)> \.\}$', q)
                    if m: out.append(('sp', m.group(1))); continue
                    m = _re.match(r'^SELECT \?o WHERE \{ <(.*)> <.*> \?o \. \}$', q)
                    if m: out.append(('classes', m.group(1))); continue
                    out.append(('selector', q))
                return out
            logs = {}
            for cache_off in (False, True):
                with FE.serving(nt) as fe:
                    Shaper(url_endpoint=FE.URL, disable_endpoint_cache=cache_off, **kw).shex_graph(string_output=True, acceptance_threshold=th)
                    logs[cache_off] = parse_log(fe.queries)
            sel = [q for q in logs[False] if q[0] == 'selector']
            classes = sorted(gen.classes_of(g)) if tmode == 'all' else cfg['targets']
            targets = []
            for cl in (classes if tmode == 'classes' else None) or []:
                pass
            # target nodes in the order the implementation selected them: the subjects of its first po queries
            po_nodes = [q[1] for q in logs[False] if q[0] == 'po']
            lines = model.case_lines(g, cfg, 'endpoint', "e%d" % i)[:-1] + ["NT\t" + nnode for nnode in po_nodes] + ["RUN\tendpoint\te%d" % i]
            mres = model.run_driver(lines).get("e%d" % i, [])
            # default Shaper: track_classes_for_entities_at_last_depth_level=False, i.e. the model's requests without the `classes` ones
            mreq = sorted(tuple(l.split("\t")[1:]) for l in mres if l.startswith("REQ") and l.split("\t")[1] != 'classes')
            mq = next((int(l.split("\t")[1]) for l in mres if l.startswith("QUERIESPOSP")), None)
            ireq_on = sorted(q for q in logs[False] if q[0] != 'selector')
            ireq_off = sorted(q for q in logs[True] if q[0] != 'selector')
            stats["request_logs_compared"] = stats.get("request_logs_compared", 0) + 1
            if ireq_on != mreq or ireq_off != sorted(mreq + mreq) or mq != len(mreq):
                dis.append({"what": "Endpoint model vs query log", "only_model": [x for x in mreq if x not in ireq_on][:8], "only_impl": [x for x in ireq_on if x not in mreq][:8],
                            "selector_like": [q[1][:120] for q in logs[False] if q[0] == 'selector'][:6],
                            "impl_cache_off_count": len(ireq_off), "model_queries_two_passes": mq, **rec})
        for cache_off, r in res.items():
            mode = "cache off" if cache_off else "cache on"
            if r[0] == 'exc':
                obs = {"kind": "endpoint", "error": r[1], "inverse": cfg['inverse'], "targets": tmode, "cap": cap}
                fid = F.match(kf, obs)
                if fid:
                    hit.add(fid)
                else:
                    viol.append({"what": "endpoint run (%s) failed: %s" % (mode, r[1]), **rec})
                continue
            sizes = gen.class_sizes(g)
            if cap is not None and any(v > cap for c_, v in sizes.items() if tmode != 'classes' or c_ in cfg['targets']):
                # the cap bites: which instances are kept depends on the order in which the source lists them (document order
                # locally, the endpoint's row order remotely), so only the shapes and their sizes are comparable
                l0 = sorted((sh['label'], sh['n']) for sh in ref['shapes'])
                l1 = sorted((sh['label'], sh['n']) for sh in r[0]['shapes'])
                why = None if l0 == l1 else "with a biting instances_cap: shapes / sizes differ: %s vs %s" % (l0[:6], l1[:6])
                stats["cap_bites"] = stats.get("cap_bites", 0) + 1
            else:
                why = compare_shapes(ref, r[0], cfg)
            if why:
                obs = {"kind": "endpoint", "why": why, "inverse": cfg['inverse'], "targets": tmode, "cap": cap, "triples": g, "cfg": cfg}
                fid = F.match(kf, obs)
                if not fid and why.startswith("constraint keys"):
                    k0 = {sh['label']: set(base.shape_keys(sh, cfg)) for sh in ref['shapes']}
                    k1 = {sh['label']: set(base.shape_keys(sh, cfg)) for sh in r[0]['shapes']}
                    diff = [k for l in k0 for k in k0[l] ^ k1.get(l, set())]
                    expected = kw['shape_map_raw'].count("@") if tmode == 'shapemap' else len(gen.classes_of(g) if tmode == 'all' else cfg['targets'])
                    fid = F.match(kf, {"kind": "order_dependent_keys", "cfg": cfg, "keys": diff, "a_shape_was_removed": len(ref['shapes']) < expected})
                if fid:
                    hit.add(fid)
                else:
                    viol.append({"what": "endpoint (%s) vs local: %s" % (mode, why), "local": ref_text[:1500], "endpoint": r[1][:1500], **rec})
        if res[False][0] != 'exc' and res[True][0] != 'exc':
            stats["queries_cache_on"] += res[False][2]
            stats["queries_cache_off"] += res[True][2]
            stats["saved_by_cache"] += res[True][2] - res[False][2]
            if res[False][1] != res[True][1]:
                why = compare_shapes(res[True][0], res[False][0], cfg)      # same source, same row order: caps select the same nodes
                if why:
                    viol.append({"what": "disable_endpoint_cache changes the result: %s" % why, "cache_on": res[False][1][:1200], "cache_off": res[True][1][:1200], **rec})
            if res[False][2] > res[True][2]:
                viol.append({"what": "caching issues more queries (%d) than no caching (%d)" % (res[False][2], res[True][2]), **rec})
    # rows of the endpoint / of an rdflib graph get their corners from these helpers (regenerated, Props/GenStrUnprefix)
    base.fragment_s_tie(ctx, dis, stats, ['add_corners', 'add_corners_if_needed', 'add_corners_if_it_is_an_uri'])
    return base.std_result(ctx, cases, viol, dis, base.known_lines(kf, hit), stats, stats["saved_by_cache"], [],
                           "graphs with IRI nodes, plain-string and integer literals x {target classes, all classes, shape maps (FOCUS patterns, node "
                           "selectors)} x cache on / off x inverse_paths x instances_cap, served by an in-process SPARQL evaluator (rdflib) substituted for "
                           "the HTTP client; each endpoint run compared with the local run of the same graph and with the other cache mode; queries counted", DEPS)
