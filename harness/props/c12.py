"""C12 — raising the acceptance threshold only removes constraints.

proof : Props/C12.lean
tie   : ordered correspondence on every threshold of the grid
search: inclusions between fresh runs of the implementation at t1 <= t2 (keys, shapes, figures),
        completeness at 0 and universality at 1 against the Lean Spec keys
"""
import random, json
from fractions import Fraction
from common import *
import gen, pipeline, model, findings as F, oracle
from props import base

PROPS_MODULES = ["ShexerModel.Props.C12"]
DEPS = ["threshold_keeps"]
replay = base.replay


def alt_figures(sh):
    """figures of every alternative (dir, prop, type, card) shown on a line or in a comment"""
    out = {}
    for st in sh['stmts']:
        if st['has_fig'] and len(st['types']) == 1 and st['n'] is not None:
            out[(st['inv'], st['prop'], st['types'][0], st['card'])] = st['n']
        for cm in st['comments']:
            if 'example' not in cm and cm['n'] is not None and cm['ty'] != '~choice':
                out.setdefault((st['inv'], st['prop'], cm['ty'], cm['card']), cm['n'])
    return out


def run(ctx):
    rng = random.Random(ctx.seed * 15485863 + 12)
    kf = F.load("C12")
    ngraphs = 120 if ctx.tier == "quick" else 2500
    groups = []
    cases = []
    for i in range(ngraphs):
        ip = rng.choice([RDF_TYPE, RDF_TYPE, EX + 'inst'])
        g = gen.gen_graph(rng, inst_prop=ip) if rng.random() < 0.7 else gen.gen_schema_graph(rng, inst_prop=ip)
        directed = False
        if i % 5 == 4:
            # a property with several values per instance, the number of values varying between instances (two or three exact cardinalities
            # with different frequencies), the values partly in classes, partly blank nodes, partly untyped: thresholds between the
            # frequencies of the cardinalities must not make a key come and go
            ip = RDF_TYPE
            g = []
            nT = rng.randint(7, 10)
            a2, a1s = rng.randint(2, 4), rng.randint(1, 3)          # two values (one typed S, one not) / one value in S / the rest one value outside S
            for j in range(nT):
                g.append((I('t%d' % j), RDF_TYPE, I('T')))
            for j in range(a2 + a1s):
                g.append((I('s%d' % j), RDF_TYPE, I('S')))
            for j in range(nT):
                if j < a2:
                    g += [(I('t%d' % j), EX + 'p', I('s%d' % j)), (I('t%d' % j), EX + 'p', I('other%d' % j))]
                elif j < a2 + a1s:
                    g.append((I('t%d' % j), EX + 'p', I('s%d' % j)))
                else:
                    g.append((I('t%d' % j), EX + 'p', I('other%d' % j)))
            nU = rng.randint(7, 10)
            b2, i1 = rng.randint(2, 4), rng.randint(2, 4)
            for j in range(nU):
                g.append((I('u%d' % j), RDF_TYPE, I('U')))
                if j < b2:
                    g += [(I('u%d' % j), EX + 'q', B('b%da' % j)), (I('u%d' % j), EX + 'q', B('b%db' % j))]
                elif j < b2 + i1:
                    g.append((I('u%d' % j), EX + 'q', I('thing%d' % j)))
                else:
                    g += [(I('u%d' % j), EX + 'q', I('thing%da' % j)), (I('u%d' % j), EX + 'q', I('thing%db' % j))]
            g = list(dict.fromkeys(g))
            rng.shuffle(g)
            directed = True
        cfg0 = gen.gen_cfg(rng, g, inst_prop=ip, presentation=False, allow_cap=False, allow_or=True)
        cfg0['report'] = 'mixed'
        cfg0['disable_comments'] = False
        cfg0['disable_exact'] = False
        ths = gen.threshold_grid(g, ip)
        if len(ths) > 6 and not directed:
            ths = list(set(rng.sample(ths, 4)) | {(0, 1), (1, 1)})
        if directed:
            cfg0['target_mode'], cfg0['targets'], cfg0['remove_empty'] = 'all', None, False
        ths = sorted(set(ths), key=lambda t: Fraction(*t))
        ths = [t for k, t in enumerate(ths) if k == 0 or Fraction(*t) != Fraction(*ths[k - 1])]
        idx = []
        for th in ths:
            c = dict(cfg0)
            c['th'] = th
            idx.append(len(cases))
            cases.append((g, c))
        groups.append((g, cfg0, ths, idx))
    ir, dis = base.correspondence(ctx, cases)
    specs = base.spec_keys([(g, c) for g, c, _, _ in groups]) if ctx.spec_ok else [None] * len(groups)
    viol, reproduced = [], set()
    stats = {"pairs": 0, "keys_dropped": 0, "shapes_dropped": 0, "thresholds_per_graph": {}}
    nontriv, samples = 0, []
    for (g, cfg0, ths, idx), spec in zip(groups, specs):
        stats["thresholds_per_graph"][len(ths)] = stats["thresholds_per_graph"].get(len(ths), 0) + 1
        runs = []
        for th, i in zip(ths, idx):
            r = ir[i]
            if r[0] != 'ok':
                viol.append({"what": "implementation gave no result", "outcome": list(r[:3]), **pipeline.case_json(g, cases[i][1])})
                runs = None
                break
            runs.append((Fraction(*th), th, {sh['label']: sh for sh in r[1]['shapes']}, r))
        if not runs:
            continue
        dropped = False
        for a in range(len(runs)):
            for b2 in range(a + 1, len(runs)):
                t1, th1, s1, r1 = runs[a]
                t2, th2, s2, r2 = runs[b2]
                stats["pairs"] += 1
                for lab, sh2 in s2.items():
                    if lab not in s1:
                        viol.append({"what": "shape present at the higher threshold only", "label": lab, "t1": list(th1), "t2": list(th2),
                                     **pipeline.case_json(g, cfg0)})
                        continue
                    k1, k2 = set(base.shape_keys(s1[lab], cfg0)), set(base.shape_keys(sh2, cfg0))
                    if not k2 <= k1:
                        obs = {"kind": "key_not_monotone", "keys": k2 - k1, "t1": th1, "t2": th2, "triples": g, "cfg": cfg0,
                               "parsed1": r1[1], "parsed2": r2[1], "label": lab}
                        fid = F.match(kf, obs)
                        if fid:
                            reproduced.add(fid)
                        else:
                            viol.append({"what": "key present at the higher threshold only", "label": lab, "keys": [list(k) for k in k2 - k1],
                                         "t1": list(th1), "t2": list(th2), **pipeline.case_json(g, cfg0)})
                    if len(k2) < len(k1):
                        dropped = True
                        stats["keys_dropped"] += 1
                    f1, f2 = alt_figures(s1[lab]), alt_figures(sh2)
                    for alt, n2 in f2.items():
                        if alt in f1 and f1[alt] != n2 and (alt[2] != 'NONLITERAL' or cfg0['keep_less_specific']):
                            viol.append({"what": "figure of a surviving alternative differs between thresholds", "label": lab,
                                         "alternative": list(alt), "n_t1": f1[alt], "n_t2": n2, "t1": list(th1), "t2": list(th2),
                                         **pipeline.case_json(g, cfg0)})
                stats["shapes_dropped"] += len(set(s1) - set(s2))
        nontriv += dropped
        # endpoints against the Spec
        if spec is not None:
            lm = oracle.classes_for_labels(g, cfg0)
            for t, th, shapes, r in runs:
                if th not in ((0, 1), (1, 1)):
                    continue
                for lab, sh in shapes.items():
                    cl = lm.get(lab)
                    if not cl or len(cl) != 1 or cl[0] not in spec:
                        continue
                    N, keys = spec[cl[0]]
                    got = set(base.shape_keys(sh, cfg0))
                    if th == (0, 1):
                        for k, n in keys.items():
                            if n >= 1 and k not in got:
                                obs = {"kind": "missing_key", "key": k, "class": cl[0], "N": N, "counts": keys, "triples": g,
                                       "cfg": dict(cfg0, th=th), "parsed": r[1]}
                                fid = F.match(kf, obs)
                                if fid:
                                    reproduced.add(fid)
                                else:
                                    viol.append({"what": "feature observed in the data is omitted at threshold 0", "class": cl[0], "key": list(k),
                                                 **pipeline.case_json(g, dict(cfg0, th=th))})
                    else:
                        for k in got:
                            if keys.get(k, 0) != N:
                                viol.append({"what": "constraint at threshold 1 is not a feature of all instances", "class": cl[0], "key": list(k),
                                             "count": keys.get(k), "N": N, **pipeline.case_json(g, dict(cfg0, th=th))})
        if len(samples) < 1 and len(g) < 10:
            samples.append({"nt": to_nt(g), "thresholds": [list(t) for t in ths]})
    # ---------------- directed: large classes with a nearly universal feature; presentation options must not enter the filter
    import impl
    from shexer.shaper import Shaper
    from shexer import consts as C
    stats["large_class_cases"] = 0
    # (a ratio rounded to `decimals` + 2 digits reaches 1.0 from (n-1)/n for n > 2000 with decimals=1 and n > 20000 with decimals=2)
    for N, decs in ([(250, (0, 1, 2, -1)), (2500, (1, 2))] if ctx.tier == "quick" else [(250, (0, 1, 2, -1)), (2500, (0, 1, 2, -1)), (21000, (2, 3))]):
        for dec in decs:
            missing = rng.randint(1, 2)
            g = []
            for i in range(N):
                g.append((I('big%d' % i), RDF_TYPE, I('Big')))
                g.append((I('big%d' % i), EX + 'always', L('v')))
                if i >= missing:
                    g.append((I('big%d' % i), EX + 'nearly', L('v')))
            cfg = gen.default_cfg()
            cfg['decimals'] = dec
            cfg['report'] = rng.choice(['mixed', 'ratio', 'abs'])
            rs = pipeline.run_impl([(g, dict(cfg, th=th)) for th in ((N - missing, N), (1, 1))])
            stats["large_class_cases"] += 1
            for th, r in zip(((N - missing, N), (1, 1)), rs):
                if r[0] != 'ok':
                    viol.append({"what": "implementation gave no result on the large class", "outcome": list(r[:3]), "N": N, "decimals": dec})
                    continue
                props = {st['prop'] for sh in r[1]['shapes'] for st in sh['stmts']}
                has = EX + 'nearly' in props
                if th == (1, 1) and has:
                    viol.append({"what": "at threshold 1 a feature of %d of %d instances remains (decimals=%d)" % (N - missing, N, dec),
                                 "decimals": dec, "N": N, "with_feature": N - missing, "shexc_tail": r[2][-400:]})
                if th != (1, 1) and not has:
                    viol.append({"what": "a feature of %d of %d instances is dropped at threshold exactly %d/%d (decimals=%d)" % (N - missing, N, N - missing, N, dec),
                                 "decimals": dec, "N": N, "with_feature": N - missing, "shexc_tail": r[2][-400:]})
    # ---------------- the SHACL serialisation over a threshold grid: the keys (shape, direction, path, value class) it states shrink too
    import shacl_text
    stats["shacl_threshold_grids"] = 0
    stats["shacl_keys_seen"] = 0

    def shacl_keys(text):
        out = set()
        for sh_ in shacl_text.parse(text)['shapes']:
            for d in sh_['props']:
                for r_ in (d['restr'] or ['none']):
                    vc = r_ if r_.startswith(('datatype:', 'in:')) else 'nonliteral' if r_.startswith(('nodeKind:', 'node:')) else r_.split(':')[0]
                    if vc.endswith('#Literal'):
                        vc = 'literal'
                    out.add((sh_['iri'], bool(d['inverse']), d['path'], vc))
        return out
    for i in range(40 if ctx.tier == "quick" else 600):
        g = gen.gen_graph(rng) if i % 3 else gen.gen_schema_graph(rng)
        if i % 2 == 0:
            # one property with two literal kinds of different frequency in one class (3/5 strings, 2/5 integers): its two keys live on one path
            g = list(g) + [t for k in range(5) for t in [(I('sens%d' % k), RDF_TYPE, I('Sensor')),
                                                           (I('sens%d' % k), EX + 'code', L('c%d' % k) if k < 3 else ('L', str(k), XSD + 'integer', None))]]
        cfg = gen.gen_cfg(rng, g, presentation=False, allow_cap=False)
        cfg['remove_empty'] = False
        kw = impl.shaper_kwargs(cfg)
        grid = sorted({(0, 1), (1, 5), (2, 5), (1, 2), (3, 5), (4, 5), (1, 1)} | {tuple(t) for t in [cfg['th']]})
        grid.sort(key=lambda t: t[0] / t[1])
        prev, prev_t = None, None
        stats["shacl_threshold_grids"] += 1
        for th in grid:
            try:
                kw2 = dict(kw, namespaces_dict=dict(kw['namespaces_dict']))
                txt = Shaper(raw_graph=to_nt(g), input_format=C.NT, **kw2).shex_graph(string_output=True, acceptance_threshold=th[0] / th[1], output_format=C.SHACL_TURTLE)
                keys = shacl_keys(txt)
            except Exception as e:
                obs = {"kind": "exception", "exc": type(e).__name__, "msg": str(e)[:200], "cfg": cfg, "triples": g}
                if not F.match(kf, obs) and not F.match(F.load("C11"), obs) and not F.match(F.load("C05"), obs):
                    viol.append({"what": "SHACL output at threshold %d/%d: %s %s" % (th[0], th[1], type(e).__name__, str(e)[:120]), **pipeline.case_json(g, dict(cfg, th=list(th)))})
                prev = None
                continue
            stats["shacl_keys_seen"] += len(keys)
            if prev is not None and not keys <= prev:
                new = sorted(keys - prev)[:3]
                viol.append({"what": "SHACL: raising the threshold from %d/%d to %d/%d ADDS constraint keys (shape, inverse, path, value class): %s" % (
                    prev_t[0], prev_t[1], th[0], th[1], new), "shacl_grid": [list(t) for t in grid], **pipeline.case_json(g, dict(cfg, th=list(th)))})
                break
            prev, prev_t = keys, th
    # ---------------- directed: one Shaper asked for thresholds that differ by 1e-10 around a k/n boundary, against fresh Shapers
    stats["near_threshold_sequences"] = 0
    for i in range(20 if ctx.tier == "quick" else 200):
        n = rng.randint(2, 9)
        k = rng.randint(1, n - 1)
        g = [(I('q%d' % j), RDF_TYPE, I('Q')) for j in range(n)] + [(I('q%d' % j), EX + 'some', L('v')) for j in range(k)] \
            + [(I('q%d' % j), EX + 'all', L('w')) for j in range(n)]
        rng.shuffle(g)
        cfg = gen.default_cfg()
        kw = impl.shaper_kwargs(cfg)
        b = k / n
        seq = rng.choice([[b, b + 2e-10, 1.0, b + 1e-10], [b + 1e-10, b, 0.0, b + 2e-10], [b, b + 1e-10], [1.0, b + 1e-10, b]])
        nt = to_nt(g)
        warm = Shaper(raw_graph=nt, input_format=C.NT, **kw)
        stats["near_threshold_sequences"] += 1
        for j, t in enumerate(seq):
            try:
                a = warm.shex_graph(string_output=True, acceptance_threshold=t)
                f = Shaper(raw_graph=nt, input_format=C.NT, **kw).shex_graph(string_output=True, acceptance_threshold=t)
            except Exception as e:
                viol.append({"what": "call raised %s: %s" % (type(e).__name__, str(e)[:100]), "thresholds": seq, "nt": nt})
                break
            if a != f:
                viol.append({"what": "call %d of one Shaper (threshold %r, after %r) differs from a fresh Shaper at that threshold: a feature of %d/%d "
                                     "instances is %s" % (j + 1, t, seq[:j], k, n, "kept" if 'some' in a else "dropped"),
                             "thresholds": seq, "nt": nt, "warm": a[-300:], "fresh": f[-300:]})
                break
    # ---------------- directed: shapes that a high threshold empties (and removes) must be back at a lower one - on fresh Shapers and on
    # one Shaper asked high first, then low (the instantiation namespace is ignored, so a class shape can lose every constraint)
    stats["emptied_shape_sequences"] = 0
    for i in range(20 if ctx.tier == "quick" else 200):
        g = []
        ncls = rng.randint(2, 3)
        for c in range(ncls):
            ninst = rng.randint(2, 4)
            for j in range(ninst):
                node = I('e%d_%d' % (c, j))
                g.append((node, RDF_TYPE, I('E%d' % c)))
                g.append((node, EX + 'only%d_%d' % (c, j % max(1, ninst - 1)), L('v')))       # no feature shared by all instances of class 0
                if c > 0:
                    g.append((node, EX + 'shared%d' % c, L('w')))
        rng.shuffle(g)
        cfg = gen.default_cfg()
        cfg['ignore_ns'] = [RDF]
        kw = impl.shaper_kwargs(cfg)
        nt = to_nt(g)
        seq = rng.choice([[0.5, 1.0, 0.0, 0.75], [1.0, 0.0], [1.0, 0.5, 1.0, 0.25], [0.75, 1.0, 0.5]])
        warm = Shaper(raw_graph=nt, input_format=C.NT, **kw)
        stats["emptied_shape_sequences"] += 1
        for j, t in enumerate(seq):
            try:
                a = warm.shex_graph(string_output=True, acceptance_threshold=t)
                f = Shaper(raw_graph=nt, input_format=C.NT, **kw).shex_graph(string_output=True, acceptance_threshold=t)
            except Exception as e:
                viol.append({"what": "call raised %s: %s" % (type(e).__name__, str(e)[:100]), "thresholds": seq, "nt": nt})
                break
            if a != f:
                viol.append({"what": "call %d of one Shaper (threshold %r, after %r) differs from a fresh Shaper at that threshold: a shape emptied by "
                                     "an earlier, higher threshold is missing or changed" % (j + 1, t, seq[:j]),
                             "thresholds": seq, "nt": nt, "warm": a[-400:], "fresh": f[-400:]})
                break
    # ---------------- directed: an output of more than 5000 lines at the low threshold (the string result is assembled from 5000-line
    # pieces) and a short one at threshold 1: every shape of the high threshold is there at the low one
    big = []
    for k in range(450 if ctx.tier == "quick" else 1200):
        for j in range(2):
            big += [(I('b%d_%d' % (k, j)), RDF_TYPE, I('B%d' % k)), (I('b%d_%d' % (k, j)), EX + 'all', L('v')),
                    (I('b%d_%d' % (k, j)), EX + 'mine%d' % j, L('w')), (I('b%d_%d' % (k, j)), EX + 'other%d' % j, I('b%d_%d' % ((k + 1) % 450, j)))]
    rs = pipeline.run_impl([(big, dict(gen.default_cfg(), th=(0, 1))), (big, dict(gen.default_cfg(), th=(1, 1)))])
    stats["large_output_lines"] = [r[2].count("\n") if r[0] == 'ok' else None for r in rs]
    if rs[0][0] != 'ok' or rs[1][0] != 'ok':
        viol.append({"what": "implementation gave no result on the large document", "outcomes": [list(r[:2]) for r in rs]})
    else:
        lo = {sh['label']: set(base.shape_keys(sh, gen.default_cfg())) for sh in rs[0][1]['shapes']}
        hi = {sh['label']: set(base.shape_keys(sh, gen.default_cfg())) for sh in rs[1][1]['shapes']}
        missing = [l for l in hi if l not in lo]
        if missing or any(not hi[l] <= lo[l] for l in hi if l in lo):
            viol.append({"what": "large document (%s lines at threshold 0): %d shapes of threshold 1 are absent at threshold 0" % (stats["large_output_lines"][0], len(missing)),
                         "first_missing": missing[:5], "shapes_at_0": len(lo), "shapes_at_1": len(hi)})
    return base.std_result(ctx, cases, viol, dis, base.known_lines(kf, reproduced), stats, nontriv, samples,
                           "per random graph and configuration: fresh Shapers on every threshold of the k/n grid of the class sizes present "
                           "(all ordered pairs compared); classes of 250 and 2500 (21000) instances with a feature missing from one or two, under every decimals setting, at "
                           "thresholds (N-m)/N and 1; one Shaper asked for thresholds 1e-10 apart around a k/n boundary, against fresh Shapers; "
                           "non-trivial = some pair of thresholds really drops a key", DEPS)
