"""Helpers shared by the pipeline property checks."""
import json, random
from common import *
import gen, pipeline, model, compare, findings as F, oracle


def stmt_vclass(st, cfg):
    if st['prop'] == cfg['inst_prop']:
        return "cv:" + st['types'][0]
    if all(t in ('IRI', 'BNode', 'NONLITERAL') or t.startswith('%') for t in st['types']):
        return "nonliteral"
    return "dt:" + st['types'][0]


def shape_keys(sh, cfg):
    return [(st['inv'], st['prop'], stmt_vclass(st, cfg)) for st in sh['stmts']]


def correspondence(ctx, cases, ir=None):
    """model vs implementation on the canonical shapes; -> (impl results, disagreements)"""
    ir = ir if ir is not None else pipeline.run_impl(cases)
    dis = []
    if ctx.driver_ok:
        mr = pipeline.run_model(cases)
        for (g, cfg), r, m in zip(cases, ir, mr):
            if r[0] == 'ok' and m is not None:
                d = compare.compare(model.parse_shapes(m), r[1], cfg)
                if d:
                    dis.append({"what": "model vs implementation", "diffs": d[:5], **pipeline.case_json(g, cfg)})
            elif r[0] != 'ok':
                dis.append({"what": "implementation gave no result", "outcome": list(r[:3]), **pipeline.case_json(g, cfg)})
    return ir, dis


def spec_keys(cases):
    """Lean Spec: per case {class: (N, {(inv, prop, vclass): n})}"""
    lines = []
    for i, (g, cfg) in enumerate(cases):
        lines += model.case_lines(g, oracle.spec_cfg(cfg), 'keys', "k%d" % i, sel_flags=oracle.cap_keep_flags(g, cfg))
    res = model.run_driver(lines, spec_only=True)
    out = []
    for i in range(len(cases)):
        d = {}
        cur = None
        for ln in res.get("k%d" % i, []):
            f = ln.split("\t")
            if f[0] == 'KC':
                cur = f[1]
                d[cur] = (int(f[2]), {})
            elif f[0] == 'K':
                d[cur][1][(f[1] == 'I', f[2], f[3])] = int(f[4])
        out.append(d)
    return out


def std_result(ctx, cases, viol, dis, known, stats, nontriv, samples, rule, deps, assumptions=()):
    return {"evaluations": len(cases), "distinct_nontrivial": nontriv, "rule": rule, "samples": samples[:3], "stats": stats,
            "violations": viol[:5], "disagreements": dis, "known": known, "generated_deps": deps, "assumptions": list(assumptions)}


def fragment_s_tie(ctx, dis, stats, names):
    """tie of the translator itself: generated string functions + Base/PyOps primitives vs CPython / the real functions"""
    import random, strcheck
    r = strcheck.run(random.Random(ctx.seed * 7919 + 5), 4000 if ctx.tier == "quick" else 60000, names,
                     prebuilt=(getattr(ctx, "str_ok", False), getattr(ctx, "str_build_output", "")))
    if not r["ok"]:
        dis.append({"what": "strdriver (generated string functions) does not build", "build_output": r["build_output"]})
    dis += r["disagreements"][:5]
    stats["fragment_S_tie"] = dict(r["stats"], cases=r["cases"], disagreements=len(r["disagreements"]))


def shape_map_cases(ctx, n, label):
    """the shape-map family of C10 (selection, shapes, exact figures for the selection) on a few cases: C01 and C02 also hold when the
    nodes are selected by a shape map -> (violations, disagreements, stats)"""
    import random, tempfile, shutil
    from props import c10
    tmp = tempfile.mkdtemp(prefix="verif_sm_")
    st = {"selector_kinds": {}, "syntax": {}, "delivery": {}, "mixed_mode": 0, "items": 0, "ghost_nodes": 0}
    v, d = [], []
    try:
        c10.shape_map_family(ctx, random.Random(ctx.seed * 31337 + len(label)), n, F.load("C10"), tmp, st, v, d, set())
    finally:
        shutil.rmtree(tmp, ignore_errors=True)
    for x in v:
        x["what"] = "%s with shape-map targets: %s" % (label, x["what"])
    return v, d, st


def known_lines(kf, reproduced):
    out = []
    for f in kf:
        if f["id"] in reproduced or F.replay(f):
            out.append((f["id"], "%s %s" % (f["id"], f["summary"])))
    return out


def replay(path):
    r = json.load(open(path))
    print(json.dumps(r, indent=1)[:4000])
    return 0
