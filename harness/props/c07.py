"""C07 — the streaming Turtle reader yields exactly the triples of the document.

proof : Props/C07.lean (state machine over tokens: for every token stream of the dialect the yielded triples are the
        triples of the statement groups; token-boundary lemmas)
tie   : Ttl model vs BigTtlTriplesYielder on the generated documents
search: abstract triple groups -> layout generator -> real reader, compared with the triples the document was
        rendered from (and with rdflib's Turtle parser); documents outside the dialect must raise or agree with rdflib
"""
import random, json, re, itertools, signal, sys
from common import *
import model, findings as F
from props import base

PROPS_MODULES = ["ShexerModel.Props.C07", "ShexerModel.Props.GenStrCorners", "ShexerModel.Props.GenStrLiteral", "ShexerModel.Props.GenStrUnprefix", "ShexerModel.Props.GenStrTtlScan", "ShexerModel.Props.GenStrTune2", "ShexerModel.Props.GenStrTtlTok", "ShexerModel.Props.GenTtlReader", "ShexerModel.Props.GenTtlDoc"]
DEPS = ["S.remove_corners", "S.decide_literal_type"] + ["S." + x for x in ('ttl_remove_comments_if_needed', 'ttl_find_next_blank', 'ttl_count_prior_backslashes', 'ttl_find_next_unescaped_quotes', 'ttl_find_next_quoted_literal_ending', 'ttl_expand_prefixed_datatype_if_needed', 'ttl_parse_cornered_element', 'ttl_next_line_token', 'ttl_clean_line', 'ttl_is_num_literal', 'ttl_parse_elem', 'ttl_process_prefix_line', 'ttl_process_base_line', 'ttl_check_directive_alone_in_its_line', 'parse_literal', 'parse_unquoted_literal', 'tune_subj', 'tune_prop', 'tune_token')]
replay = base.replay
LANG_STRING = 'http://www.w3.org/1999/02/22-rdf-syntax-ns#langString'
PFX = {'': 'http://empty.example.org/', 'e': 'http://short.example.com/', 'ex': 'http://example.org/', 'ext': 'http://ext.example.org/ns#', 'xsd': XSD,
       'dtp': 'http://dt.example.com/types#', 'dt': 'http://units.example.org/datatypes#', 'geo': 'http://www.w3.org/2003/01/geo/wgs84_pos#', 'rdf': 'http://www.w3.org/1999/02/22-rdf-syntax-ns#', 'rdfs': 'http://www.w3.org/2000/01/rdf-schema#'}
BASE = 'http://base.example.net/b/'
CONTENT_ATOMS = ['\\"', '\\\\', '#', ' #', ';', ',', '.', ' .', ' ; ', '@', '^^', 'a', ' ', '<', '>', 'é', 'ex:x', '\\n', "'", '\u2028', '\x0c', '\u0085']      # the last three: line boundaries for str.splitlines(), ordinary characters for Turtle


class Hang(Exception):
    pass


def _alarm(*a):
    raise Hang()


def gen_groups(rng, small=False):
    """abstract document: list of (subject, [(predicate, [objects])])"""
    def node():
        r = rng.random()
        if r < 0.2: return ('B', 'b%d' % rng.randint(0, 3))
        if r < 0.35: return ('I', rng.choice([BASE + 'r1', BASE + 'dir/r2', BASE + 'r#f', BASE + '#frag', 'http://base.example.net/top', 'urn:isbn:123',
                                              BASE + 'go/?to=http://other.org/page', BASE + 'doc/1#src=ftp://files.example.org/x']))      # relative references that embed a URL
        if r < 0.5: return ('I', 'http://other.org/o%d' % rng.randint(0, 3))
        return ('I', PFX[rng.choice(['ex', 'ex', 'ex', 'e', 'ext', 'rdfs', ''])] + 'n%d' % rng.randint(0, 5))
    def lit():
        content = ''.join(rng.choice(CONTENT_ATOMS) for _ in range(rng.randint(0, 4)))
        r = rng.random()
        if r < 0.25: sf = ('none',)
        elif r < 0.4: sf = ('lang', rng.choice(['en', 'en-GB']))
        elif r < 0.55: sf = ('dt', XSD + rng.choice(['integer', 'date', 'string']))
        elif r < 0.7: sf = ('dt', rng.choice([PFX['dtp'] + 'temp', PFX['dt'] + 'metre', PFX['geo'] + 'degrees']))      # `dt:` / `geo:` as the DOCUMENT binds them
        elif r < 0.78: sf = ('dt', 'http://other.org/dt@x')
        elif r < 0.85: sf = ('dt', BASE + rng.choice(['units/celsius', 'squareMetre', 'dt#frag']))      # written relative to @base when there is one
        else: return ('N', rng.choice(['', '', '-', '+']) + str(rng.randint(0, 99)))          # untyped integer: [+-]?[0-9]+
        return ('L', content, sf)
    groups = []
    for _ in range(rng.randint(1, 2 if small else 4)):
        s = node()
        pos = []
        for _ in range(rng.randint(1, 2 if small else 3)):
            p = ('I', RDF_TYPE) if rng.random() < 0.2 else ('I', PFX[rng.choice(['ex', 'ex', 'ext', 'rdfs', ''])] + 'p%d' % rng.randint(0, 3))
            objs = [node() if (p[1] == RDF_TYPE or rng.random() < 0.4) else lit() for _ in range(rng.randint(1, 2 if small else 3))]
            pos.append((p, objs))
        groups.append((s, pos))
    return groups


def spell_iri(rng, iri, use_base):
    for pre, ns in PFX.items():
        if iri.startswith(ns) and re.match(r'^[A-Za-z0-9_]+$', iri[len(ns):]) and rng.random() < 0.7:
            return pre + ':' + iri[len(ns):]
    if use_base and iri.startswith(BASE) and rng.random() < 0.7:
        return '<' + iri[len(BASE):] + '>'
    if use_base and iri == 'http://base.example.net/top' and rng.random() < 0.7:
        return '</top>'
    return '<' + iri + '>'


def spell(rng, t, use_base, position):
    if t[0] == 'I':
        if position == 'p' and t[1] == RDF_TYPE and rng.random() < 0.6:
            return 'a'
        return spell_iri(rng, t[1], use_base)
    if t[0] == 'B': return '_:' + t[1]
    if t[0] == 'N': return t[1]
    lit = '"' + t[1] + '"'
    if t[2][0] == 'lang': return lit + '@' + t[2][1]
    if t[2][0] == 'dt':
        dt = t[2][1]
        for pre, ns in PFX.items():
            if dt.startswith(ns) and rng.random() < 0.6:
                return lit + '^^' + pre + ':' + dt[len(ns):]
        if use_base and dt.startswith(BASE) and rng.random() < 0.8:
            return lit + '^^<' + dt[len(BASE):] + '>'
        return lit + '^^<' + dt + '>'
    return lit


def token_stream(rng, groups, use_base):
    toks = []
    for s, pos in groups:
        toks.append(spell(rng, s, use_base, 's'))
        for pi, (p, objs) in enumerate(pos):
            toks.append(spell(rng, p, use_base, 'p'))
            for oi, o in enumerate(objs):
                toks.append(spell(rng, o, use_base, 'o'))
                toks.append(',' if oi < len(objs) - 1 else (';' if pi < len(pos) - 1 else '.'))
    return toks


def layout(rng, toks, breaks=None):
    """join tokens; `breaks` (a set of token indices after which a line break is placed) may be given for the
    bounded-exhaustive stream"""
    out = []
    for i, t in enumerate(toks):
        out.append(t)
        if i == len(toks) - 1:
            out.append(rng.choice(['', ' ', ' # end']) + '\n')
            break
        if breaks is not None:
            out.append('\n' if i in breaks else ' ')
            continue
        r = rng.random()
        if r < 0.45: out.append(' ')
        elif r < 0.55: out.append('  ')
        elif r < 0.62: out.append('\t')
        elif r < 0.8: out.append('\n' + rng.choice(['', '  ', '\t']))
        elif r < 0.9: out.append(' # c "q" ; , .\n')
        else: out.append('\n# whole line ; comment "x" .\n' + rng.choice(['', '   ']))
    return ''.join(out)


def header(rng, use_base):
    lines = []
    items = list(PFX.items())
    if rng.random() < 0.5:
        rng.shuffle(items)          # otherwise shorter labels first ('e' before 'ex' before 'ext', 'rdf' before 'rdfs')
    for pre, ns in items:
        lines.append('@prefix %s: <%s> .' % (pre, ns))
    if use_base:
        lines.insert(rng.randint(0, len(lines)), '@base <%s> .' % BASE)
    if rng.random() < 0.3:
        lines.insert(rng.randint(0, len(lines)), '# a comment line')
    return '\n'.join(lines) + '\n'


def expected(groups):
    out = []
    for s, pos in groups:
        for p, objs in pos:
            for o in objs:
                if o[0] == 'L':
                    eo = ('Literal', XSD + 'string' if o[2][0] == 'none' else LANG_STRING if o[2][0] == 'lang' else o[2][1])
                elif o[0] == 'N':
                    eo = ('Literal', XSD + 'integer')
                else:
                    eo = ('IRI', o[1]) if o[0] == 'I' else ('BNode', '_:' + o[1])
                es = ('IRI', s[1]) if s[0] == 'I' else ('BNode', '_:' + s[1])
                out.append((es, p[1], eo))
    return out


def read_impl(text):
    from shexer.io.graph.yielder.big_ttl_triples_yielder import BigTtlTriplesYielder
    y = BigTtlTriplesYielder(raw_graph=text)
    old = signal.signal(signal.SIGALRM, _alarm)
    signal.alarm(30 if read_impl.hangs < 2 else 2)
    try:
        out = []
        for s, p, o in y.yield_triples():
            so = (type(s).__name__, str(s))
            oo = ('Literal', o.elem_type) if type(o).__name__ == 'Literal' else (type(o).__name__, str(o))
            out.append((so, str(p), oo))
        return ('ok', out, y.error_triples)
    except Hang:
        read_impl.hangs += 1
        return ('hang', [], 0)
    except Exception as e:
        return ('exc:%s:%s' % (type(e).__name__, str(e)[:80]), [], 0)
    finally:
        signal.alarm(0)
        signal.signal(signal.SIGALRM, old)


read_impl.hangs = 0


def rdflib_triples(text):
    import rdflib
    g = rdflib.Graph()
    g.parse(data=text, format='turtle')
    out = []
    for s, p, o in g:
        so = ('IRI', str(s)) if isinstance(s, rdflib.URIRef) else ('BNode', None)
        if isinstance(o, rdflib.Literal):
            oo = ('Literal', LANG_STRING if o.language else (str(o.datatype) if o.datatype else XSD + 'string'))
        else:
            oo = ('IRI', str(o)) if isinstance(o, rdflib.URIRef) else ('BNode', None)
        out.append((so, str(p), oo))
    return out


def anon(ts):
    return sorted(((s[0], s[1] if s[0] == 'IRI' else None), p, (o[0], o[1] if o[0] != 'BNode' else None)) for s, p, o in ts)


OUTSIDE = [
    ("glued dot", '@prefix ex: <http://example.org/> .\nex:s ex:p ex:o.\n'),
    ("glued semicolon", '@prefix ex: <http://example.org/> .\nex:s ex:p ex:o; ex:q ex:r .\n'),
    ("anonymous node", '@prefix ex: <http://example.org/> .\nex:s ex:p [ ex:q ex:r ] .\n'),
    ("empty anonymous node", '@prefix ex: <http://example.org/> .\nex:s ex:p [] .\n'),
    ("collection", '@prefix ex: <http://example.org/> .\nex:s ex:p ( ex:a ex:b ) .\n'),
    ("long string", '@prefix ex: <http://example.org/> .\nex:s ex:p """two\nlines""" .\n'),
    ("single quotes", "@prefix ex: <http://example.org/> .\nex:s ex:p 'x y' .\n"),
    ("sparql prefix", 'PREFIX ex: <http://example.org/>\nex:s ex:p ex:o .\n'),
    ("prefix and triple on one line", '@prefix ex: <http://example.org/> . ex:s ex:p ex:o .\n'),
    ("glued comma", '@prefix ex: <http://example.org/> .\nex:s ex:p ex:o, ex:r .\n'),
    ("literal glued to dot", '@prefix ex: <http://example.org/> .\nex:s ex:p "x".\n'),
    ("iri glued to dot", '@prefix ex: <http://example.org/> .\nex:s ex:p <http://example.org/o>.\n'),
    ("no final dot", '@prefix ex: <http://example.org/> .\nex:s ex:p ex:o\n'),
    ("undeclared prefix", 'ex:s ex:p ex:o .\n'),
]


def run(ctx):
    rng = random.Random(ctx.seed * 700001 + 7)
    kf = F.load("C07")
    hit = set()
    viol, dis = [], []
    stats = {"random_documents": 0, "exhaustive_break_documents": 0, "triples": 0, "with_base": 0, "outside_dialect": {}, "generator_vs_rdflib_mismatch": 0}
    docs = []
    n = 600 if ctx.tier == "quick" else 12000
    for i in range(n):
        use_base = rng.random() < 0.5
        groups = gen_groups(rng)
        toks = token_stream(rng, groups, use_base)
        docs.append((header(rng, use_base) + layout(rng, toks), groups, 'random'))
        stats["with_base"] += use_base
    # bounded-exhaustive over line-break placements for small documents
    for i in range(6 if ctx.tier == "quick" else 40):
        groups = gen_groups(rng, small=True)
        toks = token_stream(rng, groups, False)
        if len(toks) > (9 if ctx.tier == "quick" else 12):
            continue
        for mask in range(1 << (len(toks) - 1)):
            br = {j for j in range(len(toks) - 1) if mask >> j & 1}
            docs.append((header(rng, False) + layout(rng, toks, breaks=br), groups, 'breaks'))
    nontriv = 0
    for text, groups, stream in docs:
        stats["random_documents" if stream == 'random' else "exhaustive_break_documents"] += 1
        exp = expected(groups)
        stats["triples"] += len(exp)
        nontriv += any(o[0] == 'L' and o[1] for _, pos in groups for _, objs in pos for o in objs)
        r = read_impl(text)
        if r[0] != 'ok' or r[1] != exp:
            obs = {"kind": "ttl_doc", "doc": text, "outcome": r[0], "got": r[1], "expected": exp}
            fid = F.match(kf, obs)
            if fid:
                hit.add(fid)
            else:
                first = next((k for k, (a, b) in enumerate(zip(r[1], exp)) if a != b), min(len(r[1]), len(exp)))
                viol.append({"what": "streaming Turtle reader: %s" % ("raised / hung: " + r[0] if r[0] != 'ok' else "different triples (first difference at #%d of %d/%d)" % (first, len(r[1]), len(exp))),
                             "doc": text, "got": r[1][max(0, first - 1):first + 2], "expected": [list(x) for x in exp[max(0, first - 1):first + 2]]})
    # correspondence: the Lean model of the reader on the same documents (and on the documents outside the dialect)
    if ctx.driver_ok:
        alld = [d[0] for d in docs] + [t for _, t in OUTSIDE]
        lines = []
        for k, text in enumerate(alld):
            body = text[:-1] if text.endswith("\n") else text
            for ln in body.split("\n"):
                lines.append("NT\t" + ln.replace("\t", "\\t"))
            lines.append("RUN\tttldoc\td%d" % k)
        mres = model.run_driver(lines)
        for k, text in enumerate(alld):
            r = read_impl(text)
            if r[0] == 'ok':
                got = ["T\t%s\t%s\t%s\t%s\t%s" % (s_[0], s_[1], p_, o_[0], o_[1]) for s_, p_, o_ in r[1]]
            elif r[0] == 'hang':
                got = ["HANG"]
            else:
                got = ["EXC\t" + r[0].split(':')[1]]
            if mres.get("d%d" % k, []) != got:
                dis.append({"what": "Ttl.readLines (model) vs BigTtlTriplesYielder", "doc": text, "model": mres.get("d%d" % k, [])[:6], "impl": got[:6]})
                if len(dis) > 10:
                    break
    # the generator itself, against rdflib (sampled)
    for text, groups, _ in docs[:: max(1, len(docs) // 300)]:
        try:
            if set(anon(rdflib_triples(text))) != set(anon(expected(groups))):
                stats["generator_vs_rdflib_mismatch"] += 1
                viol.append({"what": "harness generator disagrees with rdflib (generator bug, not a finding)", "doc": text})
        except Exception as e:
            stats["generator_vs_rdflib_mismatch"] += 1
            viol.append({"what": "rdflib rejects a generated document (generator bug, not a finding): %s" % str(e)[:100], "doc": text})
    # prefixes declared again with another namespace in the middle of the document (concatenated dumps): tokens already seen under the
    # first binding must be read under the second one afterwards; the reference is rdflib's parse of the same text
    stats["redeclared_prefix_documents"] = 0
    redecl = []
    for i in range(60 if ctx.tier == "quick" else 800):
        groups = gen_groups(rng, small=rng.random() < 0.5)
        toks = token_stream(rng, groups, False)
        part1 = header(rng, False) + layout(rng, toks)
        labels = rng.sample(['ex', 'e', 'ext', 'rdfs', '', 'dtp'], rng.randint(1, 3))
        again = "".join('@prefix %s: <http://second.example.org/%s/> .\n' % (l, l or 'empty') for l in labels)
        same = layout(rng, toks) if rng.random() < 0.7 else layout(rng, token_stream(rng, groups, False))
        redecl.append(part1 + again + same)
    for text in redecl:
        stats["redeclared_prefix_documents"] += 1
        try:
            ref = anon(rdflib_triples(text))
        except Exception as e:
            viol.append({"what": "rdflib rejects a generated document (generator bug, not a finding): %s" % str(e)[:100], "doc": text})
            continue
        r = read_impl(text)
        if r[0] != 'ok' or set(map(repr, anon(r[1]))) != set(map(repr, ref)):     # rdflib's graph is a set: repeated statements count once
            viol.append({"what": "prefix declared again: the reader %s" % ("raised / hung: " + r[0] if r[0] != 'ok' else "yields other triples than a standard parser"),
                         "doc": text, "got": r[1][:8], "rdflib": ref[:8]})
    if ctx.driver_ok and redecl:
        lines = []
        for k, text in enumerate(redecl):
            for ln in (text[:-1] if text.endswith("\n") else text).split("\n"):
                lines.append("NT\t" + ln.replace("\t", "\\t"))
            lines.append("RUN\tttldoc\tr%d" % k)
        mres2 = model.run_driver(lines)
        for k, text in enumerate(redecl):
            r = read_impl(text)
            got = ["T\t%s\t%s\t%s\t%s\t%s" % (s_[0], s_[1], p_, o_[0], o_[1]) for s_, p_, o_ in r[1]] if r[0] == 'ok' else ["HANG"] if r[0] == 'hang' else ["EXC\t" + r[0].split(':')[1]]
            if mres2.get("r%d" % k, []) != got:
                dis.append({"what": "Ttl.readLines (model) vs BigTtlTriplesYielder on a document that declares a prefix twice", "doc": text,
                            "model": mres2.get("r%d" % k, [])[:6], "impl": got[:6]})
                break
    # the same reader behind every delivery: two documents given as a list of files (plain and gz) and as a zip archive read like their
    # concatenation given as one string (untyped numbers included - the numeric inference must be on in every branch)
    import tempfile, os, gzip, zipfile, shutil
    from shexer.shaper import Shaper as _Sh7
    from shexer import consts as _C7
    stats["multi_file_deliveries"] = 0
    tdir = tempfile.mkdtemp(prefix="verif_c07_")
    try:
        for i in range(12 if ctx.tier == "quick" else 150):
            parts = []
            for k in range(2):
                groups = gen_groups(rng)
                groups.append((('I', PFX['ex'] + 'num%d' % k), [(('I', RDF_TYPE), [('I', PFX['ex'] + 'Num')]), (('I', PFX['ex'] + 'age'), [('N', rng.choice(['23', '-2', '+7']))])]))
                parts.append(header(rng, False) + layout(rng, token_stream(rng, groups, False)))
            whole = "".join(parts)
            def shapes_of(**kw):
                try:
                    return _Sh7(all_classes_mode=True, input_format=_C7.TURTLE_ITER, **kw).shex_graph(string_output=True)
                except Exception as e:
                    return "EXC %s %s" % (type(e).__name__, str(e)[:100])
            ref = shapes_of(raw_graph=whole)
            paths, gzs = [], []
            for k, part in enumerate(parts):
                pth = os.path.join(tdir, "d%d_%d.ttl" % (i, k))
                open(pth, "w", encoding="utf-8").write(part)
                paths.append(pth)
                with gzip.open(pth + ".gz", "wt", encoding="utf-8") as fh:
                    fh.write(part)
                gzs.append(pth + ".gz")
            zpath = os.path.join(tdir, "d%d.zip" % i)
            with zipfile.ZipFile(zpath, "w") as z:
                for k, part in enumerate(parts):
                    z.writestr("m%d.ttl" % k, part)
            stats["multi_file_deliveries"] += 1
            for cname, got in (("list of files", shapes_of(graph_list_of_files_input=paths)),
                               ("list of gz files", shapes_of(graph_list_of_files_input=gzs, compression_mode=_C7.GZ)),
                               ("zip archive", shapes_of(graph_file_input=zpath, compression_mode=_C7.ZIP)),
                               ("single file", shapes_of(graph_file_input=paths[0]) if False else ref)):
                if got != ref and not ref.startswith("EXC"):
                    viol.append({"what": "TURTLE_ITER, %s: other shapes than the same documents given as one string" % cname,
                                 "doc": whole, "as_string": ref[-500:], "as_" + cname.replace(" ", "_"): got[-500:]})
                    break
    finally:
        shutil.rmtree(tdir, ignore_errors=True)
    # outside the dialect: raise, or yield what a standard parser yields
    for name, text in OUTSIDE:
        r = read_impl(text)
        try:
            ref = anon(rdflib_triples(text))
        except Exception:
            ref = None
        verdict = "raises" if r[0].startswith('exc') else "hangs" if r[0] == 'hang' else ("same as rdflib" if ref is not None and set(anon(r[1])) == set(ref) else
                                                                                          "nothing (rdflib rejects the document)" if ref is None and not r[1] else "different")
        stats["outside_dialect"][name] = verdict
        if verdict in ("different", "hangs"):
            obs = {"kind": "ttl_outside", "name": name, "doc": text, "got": r[1], "rdflib": ref}
            fid = F.match(kf, obs)
            if fid:
                hit.add(fid)
            else:
                viol.append({"what": "outside the dialect (%s): the reader neither raises nor yields the triples of the document" % name,
                             "doc": text, "got": r[1], "rdflib": ref})
    base.fragment_s_tie(ctx, dis, stats, ['remove_corners', 'decide_literal_type', 'unprefixize_uri_mandatory', 'unprefixize_uri_if_possible', 'ttl_remove_comments_if_needed', 'ttl_find_next_blank', 'ttl_count_prior_backslashes', 'ttl_find_next_unescaped_quotes', 'ttl_find_next_quoted_literal_ending', 'ttl_expand_prefixed_datatype_if_needed', 'ttl_parse_cornered_element', 'ttl_next_line_token', 'ttl_clean_line', 'ttl_is_num_literal', 'ttl_parse_elem', 'ttl_process_prefix_line', 'ttl_process_base_line', 'ttl_check_directive_alone_in_its_line', 'parse_literal', 'parse_unquoted_literal', 'tune_subj', 'tune_prop', 'tune_token'])
    return base.std_result(ctx, [d[0] for d in docs], viol, dis, base.known_lines(kf, hit), stats, nontriv, [],
                           "documents rendered from abstract statement groups (';' and ',' abbreviations, 'a' vs rdf:type, prefixed / <absolute> / "
                           "<relative-to-@base> IRIs, blank nodes, literals with escapes and '#', ';', ',', '.' inside, language tags, datatypes as <IRI> / "
                           "xsd: / custom prefix, untyped integers with and without sign) by a layout generator (blanks, tabs, line breaks at any token boundary, trailing and "
                           "whole-line comments); documents that declare prefixes again with another namespace half-way (against rdflib); every line-break placement for documents of <= %d tokens; %d documents outside the dialect" % (9 if ctx.tier == "quick" else 12, len(OUTSIDE)), DEPS)
