"""C04 — extraction never crashes on a valid graph and a valid configuration.

proof : Props/C04.lean (merge stage with Python's failure modes: never fails, equals the total model)
tie   : (a) unit level — MergeableConstraints.merge_group of the implementation vs MergeE.mergeGroupE on every small group
            (exhaustive), (b) pipeline level — Shexer.run vs the output on the adversarial generator
search: every accepted configuration x {ShExC, SHACL} x {shex_graph, profile_graph} on adversarial graphs: any exception
        is the failing input
"""
import random, json, re, itertools, signal
from common import *
import gen, pipeline, model, impl, shex_text, findings as F, oracle, compare
from props import base
from shexer import consts as C

PROPS_MODULES = ["ShexerModel.Props.C04", "ShexerModel.Props.C04b"]
DEPS = ["MACRO_MAPPING", "check_correct_output_params", "most_general_cardinality"]
replay = base.replay
CARDS = {1: '{1}', 2: '{2}', '+': '+'}


def unit_groups(tier):
    """every group of one property: bnode? x iri? x 0..k shape references, counts from a small range, cardinalities"""
    ns = [1, 2, 3] if tier == "quick" else [1, 2, 3, 4]
    kmax = 2 if tier == "quick" else 3
    out = []
    for b in [None] + ns:
        for i in [None] + ns:
            for k in range(kmax + 1):
                for sn in itertools.product(ns, repeat=k):
                    g = []
                    if i is not None: g.append(('IRI', i, 1))
                    if b is not None: g.append(('BNode', b, '+' if (b + (i or 0)) % 2 else 1))
                    for j, n in enumerate(sn): g.append(('%%<http://weso.es/shapes/S%d>' % j, n, 1 if j % 2 else '+'))
                    if g:
                        out.append(g)
    return out


def impl_merge(group, order, disable_or, redundant, inverse=False):
    from shexer.core.shexing.strategy.abstract_shexing_strategy import MergeableConstraints
    from shexer.io.shex.formater.statement_serializers.st_serializers_factory import StSerializerFactory
    from shexer.model.statement import Statement
    fac = StSerializerFactory(freq_mode=C.ABSOLUTE_INSTANCES, decimals=-1, instantiation_property_str=RDF_TYPE, disable_comments=False)
    N = 8
    sts = [Statement(st_property=EX + 'p', st_type=ty, cardinality=card, n_occurences=n, probability=n / N,
                     serializer_object=fac.get_base_serializer(is_inverse=inverse), is_inverse=inverse) for ty, n, card in group]
    sts = [sts[j] for j in order]
    mc = MergeableConstraints(initial_constraint=sts[0], statement_serializer_factory=fac, namespaces_dict={})
    for s in sts[1:]:
        mc.add_constraint(s)
    try:
        d = mc.merge_group(disable_or, redundant)
    except Exception as e:
        return ('exc', type(e).__name__, str(e)[:100])
    types = list(d.st_types) if hasattr(d, 'st_types') else [d.st_type]
    cms = []
    for c in d.comments:
        m = re.search(r'# (\d+) instances?\.?(?: obj: (.*)\. Cardinality: (.*)| with cardinality (.*))$', c)
        cms.append((int(m.group(1)), m.group(2) if m.group(2) is not None else '~choice', m.group(3) or m.group(4)) if m else ('?', c, ''))
    return ('ok', types, d.cardinality, d.n_occurences, cms)


def model_merge_lines(group, order, disable_or, redundant, cid):
    out = ["CFG\tdisableOr=%d\tallowRedundantOr=%d" % (disable_or, redundant), "SH\tg\tg\t0"]
    for j in order:
        ty, n, card = group[j]
        out.append("SN\tD\t%s\t%s\t%s\t%d" % (EX + 'p', ty, CARDS[card], n))
    out.append("RUN\tmerge\t%s" % cid)
    return out


def canon_ty(t):
    t = t.strip()
    if t.startswith('@<'): return '%' + t[1:]
    if t.startswith('@:'): return '%<http://weso.es/shapes/' + t[2:] + '>'
    return t


def adversarial_graph(rng):
    """a property whose values mix IRIs and blank nodes with / without classes; nodes without outgoing triples;
    classes with one instance; language-tagged literals"""
    ncls = rng.randint(1, 3)
    g = []
    subs = [I('s%d' % i) for i in range(rng.randint(1, 5))] + ([B('sb0')] if rng.random() < 0.3 else [])
    objs = [I('o%d' % i) for i in range(3)] + [B('ob%d' % i) for i in range(3)]
    for s in subs:
        for c in rng.sample(range(ncls), rng.randint(1, ncls)):
            g.append((s, RDF_TYPE, I('C%d' % c)))
    for o in objs:
        if rng.random() < 0.5:
            g.append((o, RDF_TYPE, I('C%d' % rng.randrange(ncls + 1))))     # possibly a class that is no target
    for s in subs:
        for pi in range(rng.randint(0, 2)):
            for _ in range(rng.randint(1, 3)):
                r = rng.random()
                o = rng.choice(objs) if r < 0.75 else L('v%d' % rng.randint(0, 3), lang='en') if r < 0.85 else L('7', XSD + 'integer')
                g.append((s, EX + 'p%d' % pi, o))
    g = list(dict.fromkeys(g))
    rng.shuffle(g)
    return g


def other_schemes(rng, g):
    """the same graph with some predicates, object IRIs, datatypes and classes renamed to IRIs of other schemes than http(s)"""
    ren = {}
    def r(x, kind):
        if x not in ren:
            k = len(ren)
            ren[x] = rng.choice(['urn:%s:%d', 'mailto:%s%d@example.org', 'ftp://files.example.org/%s/%d', 'tag:example.org,2024:%s%d', 'x:%s%d', 'a1+b.c-d:%s/%d',
                                    # a scheme is case-insensitive: these are absolute IRIs too
                                    'URN:%s:%d', 'Mailto:%s%d@example.org', 'HTTP://Example.org/%s/%d']) % (kind, k) \
                if rng.random() < 0.5 else x
        return ren[x]
    out = []
    for s, p, o in g:
        if p != RDF_TYPE:
            p = r(p, 'p')
        if o[0] == 'I':
            o = ('I', r(o[1], 'c' if p == RDF_TYPE else 'o'))
        elif o[0] == 'L' and o[3] is None and o[2] != XSD + 'string':
            o = ('L', o[1], r(o[2], 'dt'), None)
        if s[0] == 'I' and s[1] in ren:
            s = ('I', ren[s[1]])
        out.append((s, p, o))
    return out


class Hang(Exception):
    pass


def _alarm(*a):
    raise Hang()


def call(fn):
    signal.signal(signal.SIGALRM, _alarm)
    import impl
    signal.alarm(impl.budget(60))
    try:
        fn()
        return None
    except Hang:
        impl.HANGS[0] += 1
        return ('hang', 'Hang', 'no result within 60 s')
    except Exception as e:
        import traceback
        tb = traceback.extract_tb(e.__traceback__)
        return ('exc', type(e).__name__, str(e)[:160], "%s:%s" % (tb[-1].filename.split('/repo/')[-1], tb[-1].name))
    finally:
        signal.alarm(0)


def run(ctx):
    from shexer.shaper import Shaper
    rng = random.Random(ctx.seed * 7654321 + 4)
    kf = F.load("C04")
    hit = set()
    viol, dis = [], []
    stats = {"unit_groups": 0, "unit_runs": 0, "unit_choice_results": 0, "pipeline_calls": 0, "by_call": {}, "exceptions": {}}
    # ---------------- (a) unit level, exhaustive over small groups
    groups = unit_groups(ctx.tier)
    stats["unit_groups"] = len(groups)
    lines, runs = [], []
    for gi, g in enumerate(groups):
        orders = [list(range(len(g))), list(reversed(range(len(g))))] if len(g) > 1 else [[0]]
        for oi, order in enumerate(orders):
            for dor, red in ((True, False), (False, False), (False, True)):
                cid = "u%d_%d_%d%d" % (gi, oi, dor, red)
                lines += model_merge_lines(g, order, dor, red, cid)
                runs.append((cid, g, order, dor, red))
    mres = model.run_driver(lines) if ctx.driver_ok else {}
    for cid, g, order, dor, red in runs:
        stats["unit_runs"] += 1
        r = impl_merge(g, order, dor, red)
        rec = {"group": g, "order": order, "disable_or": dor, "allow_redundant_or": red}
        if r[0] == 'exc':
            viol.append({"what": "MergeableConstraints.merge_group raised %s: %s" % (r[1], r[2]), **rec})
            continue
        stats["unit_choice_results"] += len(r[1]) > 1
        if not mres:
            continue
        m = mres.get(cid, [])
        if not m or m[0] != 'OK':
            dis.append({"what": "model fails where the implementation answers", "model": m[:2], **rec})
            continue
        ms = model.parse_shapes(["SHAPE\tg\tg\t0"] + m[1:])[0]['stmts'][0]
        got = ([canon_ty(t) for t in r[1]], CARDS.get(r[2], str(r[2])), r[3], [(n, canon_ty(t), c) for n, t, c in r[4]])
        exp = (ms['types'], ms['card'], ms['n'], [(c['n'], c['ty'], c['card']) for c in ms['comments']])
        if got != exp:
            dis.append({"what": "merge_group: model vs implementation", "model": exp, "impl": got, **rec})
    # ---------------- (b) pipeline level
    n = 150 if ctx.tier == "quick" else 2500
    cases = []
    for i in range(n):
        g = adversarial_graph(rng) if i % 3 else gen.gen_graph(rng)
        cfg = gen.gen_cfg(rng, g, presentation=True)
        if rng.random() < 0.35:
            cfg['examples'] = rng.choice(['shape', 'cons', 'cons', 'all', 'all'])       # examples of multi-typed nodes, of every (shape, property)
        cases.append((g, cfg))
    ths = gen.threshold_grid
    nontriv = 0
    for g, cfg in cases:
        nt = to_nt(g)
        kw = impl.shaper_kwargs(cfg)
        th = cfg['th'][0] / cfg['th'][1]
        nontriv += any(o[0] == 'B' for _, _, o in g) and any(o[0] == 'I' and p != RDF_TYPE for _, p, o in g)
        for fmt in (C.SHEXC, C.SHACL_TURTLE):
            for what in ('shex_graph', 'profile_graph'):
                if what == 'profile_graph' and fmt != C.SHEXC:
                    continue
                def go():
                    sh = Shaper(raw_graph=nt, input_format=C.NT, **kw)
                    if what == 'shex_graph':
                        sh.shex_graph(string_output=True, acceptance_threshold=th, output_format=fmt)
                    else:
                        sh.profile_graph(string_output=True)
                r = call(go)
                key = "%s/%s" % (what, fmt)
                stats["pipeline_calls"] += 1
                stats["by_call"][key] = stats["by_call"].get(key, 0) + 1
                if r is not None:
                    stats["exceptions"][r[1]] = stats["exceptions"].get(r[1], 0) + 1
                    obs = {"kind": "exception", "exc": r[1], "msg": r[2], "where": r[3] if len(r) > 3 else "", "cfg": cfg, "triples": g,
                           "call": what, "format": fmt}
                    fid = F.match(kf, obs)
                    if fid:
                        hit.add(fid)
                    else:
                        viol.append({"what": "%s(%s) raised %s: %s" % (what, fmt, r[1], r[2]), "where": obs["where"], **pipeline.case_json(g, cfg)})
    # ---------------- (b2) crash search only (no model comparison): disjunctions enabled, IRIs of other schemes than http(s)
    n2 = 120 if ctx.tier == "quick" else 2000
    stats["or_scheme_calls"] = 0
    stats["or_scheme_disjunction_outputs"] = 0
    for i in range(n2):
        g = adversarial_graph(rng) if i % 2 else gen.gen_graph(rng)
        if i % 3 == 0:
            g = other_schemes(rng, g)
        cfg = gen.gen_cfg(rng, g, presentation=True, allow_or=True)
        if i % 2:
            cfg['disable_or'] = False
            cfg['allow_redundant_or'] = rng.random() < 0.5
        nt = to_nt(g)
        kw = impl.shaper_kwargs(cfg)
        th = cfg['th'][0] / cfg['th'][1]
        for fmt in (C.SHEXC, C.SHACL_TURTLE):
            res = []
            r = call(lambda: res.append(Shaper(raw_graph=nt, input_format=C.NT, **kw).shex_graph(string_output=True, acceptance_threshold=th, output_format=fmt)))
            stats["or_scheme_calls"] += 1
            stats["pipeline_calls"] += 1
            stats["or_scheme_disjunction_outputs"] += bool(res) and (" OR " in res[0] or "sh:or" in res[0])
            if r is not None:
                stats["exceptions"][r[1]] = stats["exceptions"].get(r[1], 0) + 1
                obs = {"kind": "exception", "exc": r[1], "msg": r[2], "where": r[3] if len(r) > 3 else "", "cfg": cfg, "triples": g,
                       "call": "shex_graph", "format": fmt}
                fid = F.match(kf, obs)
                if fid:
                    hit.add(fid)
                else:
                    viol.append({"what": "shex_graph(%s) raised %s: %s" % (fmt, r[1], r[2]), "where": obs["where"], **pipeline.case_json(g, cfg)})
    # ---------------- (b3) several calls on ONE Shaper: no order of shex_graph / profile_graph calls may raise
    stats["call_sequences"] = 0
    SEQS = [('shex', 'profile'), ('profile', 'profile'), ('profile', 'shex', 'profile'), ('shex', 'shacl', 'profile', 'shex'), ('shacl', 'shacl')]
    for i, (g, cfg) in enumerate(cases[: (40 if ctx.tier == "quick" else 400)]):
        nt = to_nt(g)
        kw = impl.shaper_kwargs(cfg)
        th = cfg['th'][0] / cfg['th'][1]
        seq = SEQS[i % len(SEQS)]
        def go():
            sh = Shaper(raw_graph=nt, input_format=C.NT, **kw)
            for j, what in enumerate(seq):
                go.at = j
                if what == 'profile':
                    sh.profile_graph(string_output=True)
                else:
                    sh.shex_graph(string_output=True, acceptance_threshold=th, output_format=C.SHEXC if what == 'shex' else C.SHACL_TURTLE)
        go.at = 0
        r = call(go)
        stats["call_sequences"] += 1
        stats["pipeline_calls"] += len(seq)
        if r is not None:
            stats["exceptions"][r[1]] = stats["exceptions"].get(r[1], 0) + 1
            obs = {"kind": "exception", "exc": r[1], "msg": r[2], "where": r[3] if len(r) > 3 else "", "cfg": cfg, "triples": g, "call": "sequence " + "/".join(seq)}
            fid = F.match(kf, obs)
            if fid:
                hit.add(fid)
            else:
                viol.append({"what": "call %d of the sequence %s on one Shaper raised %s: %s" % (go.at + 1, " -> ".join(seq), r[1], r[2]), "where": obs["where"],
                             "sequence": list(seq), **pipeline.case_json(g, cfg)})
    # ---------------- (b4) Turtle documents in free layout (line breaks at any token boundary, comments, ';' and ',') through TURTLE_ITER
    from props import c07
    stats["laid_out_turtle_documents"] = 0
    for i in range(60 if ctx.tier == "quick" else 1000):
        use_base = rng.random() < 0.4
        groups = c07.gen_groups(rng)
        # classes are IRIs here: a class that is a blank node ends in a value set naming it, the other face of finding F-C04-4
        groups = [(s_, [(p_, [(('I', 'http://other.org/cls%d' % k) if (p_[1] == RDF_TYPE and o_[0] == 'B') else o_) for k, o_ in enumerate(objs)]) for p_, objs in pos])
                  for s_, pos in groups]
        doc = c07.header(rng, use_base) + c07.layout(rng, c07.token_stream(rng, groups, use_base))
        for fmt in (C.SHEXC, C.SHACL_TURTLE):
            r = call(lambda: Shaper(raw_graph=doc, input_format=C.TURTLE_ITER, all_classes_mode=True, inverse_paths=(i % 2 == 0)).shex_graph(
                string_output=True, output_format=fmt))
            stats["laid_out_turtle_documents"] += 1
            stats["pipeline_calls"] += 1
            if r is not None:
                stats["exceptions"][r[1]] = stats["exceptions"].get(r[1], 0) + 1
                abstract = [(s_, p_[1], o_) for s_, pos in groups for p_, objs in pos for o_ in objs]
                fid = F.match(kf, {"kind": "exception", "exc": r[1], "msg": r[2], "cfg": {"inverse": i % 2 == 0, "inst_prop": RDF_TYPE}, "triples": abstract})
                if fid:
                    hit.add(fid)
                    break
                viol.append({"what": "TURTLE_ITER document in free layout, %s raised %s: %s" % (fmt, r[1], r[2]), "where": r[3] if len(r) > 3 else "", "doc": doc})
                break
    # ---------------- (b5) shape-map shapes that end up without constraints (a node that is only ever an object; nodes sharing no feature
    # under a threshold), with examples_mode, disjunctions, inverse paths, removal of empty shapes on and off, both formats
    stats["shape_map_option_cases"] = 0
    for i in range(60 if ctx.tier == "quick" else 900):
        nb, nc, na = rng.randint(2, 3), rng.randint(1, 3), rng.randint(2, 4)
        g = []
        for j in range(nb):
            g.append((I('b%d' % j), EX + 'only_b%d' % j, L('v')))
        for j in range(nc):
            g.append((I('c%d' % j), EX + 'label', L('c')))
        for j in range(na):
            g.append((I('a%d' % j), EX + 'knows', I('b%d' % rng.randrange(nb))))
            g.append((I('a%d' % j), EX + 'knows', I('c%d' % rng.randrange(nc))))
            g.append((I('a%d' % j), EX + 'sees', I('leaf')))                       # 'leaf' has no triple of its own
        g = list(dict.fromkeys(g))
        rng.shuffle(g)
        names = ['a%d' % j for j in range(na)] + ['b%d' % j for j in range(nb)] + ['c%d' % j for j in range(nc)] + ['leaf']
        sm = "".join("<%s%s>@<%sshape%s>\n" % (EX, n_, EX, n_[0].upper()) for n_ in names)
        kw = dict(disable_or_statements=rng.random() < 0.5, remove_empty_shapes=rng.random() < 0.5, inverse_paths=rng.random() < 0.5,
                  examples_mode=rng.choice([None, C.SHAPE_EXAMPLES, C.CONSTRAINT_EXAMPLES, C.ALL_EXAMPLES]),
                  detect_minimal_iri=rng.random() < 0.3, all_classes_mode=rng.random() < 0.2)
        kw['allow_redundant_or'] = (not kw['disable_or_statements']) and rng.random() < 0.5
        th = rng.choice([0.0, 0.6, 2 / 3, 1.0])
        for fmt in (C.SHEXC, C.SHACL_TURTLE):
            r = call(lambda: Shaper(raw_graph=to_nt(g), input_format=C.NT, shape_map_raw=sm, **kw).shex_graph(string_output=True, acceptance_threshold=th, output_format=fmt))
            stats["shape_map_option_cases"] += 1
            stats["pipeline_calls"] += 1
            if r is not None:
                stats["exceptions"][r[1]] = stats["exceptions"].get(r[1], 0) + 1
                viol.append({"what": "shape map with options %s, threshold %s, %s raised %s: %s" % ({k: v for k, v in kw.items() if v}, th, fmt, r[1], r[2]),
                             "where": r[3] if len(r) > 3 else "", "shape_map": sm, "nt": to_nt(g)})
                break
    # ---------------- (b6) results of more than 5000 lines (the serialisers write through a 5000-line buffer), to a string and to a file
    import tempfile, os
    stats["big_output_calls"] = 0
    nbig = 900 if ctx.tier == "quick" else 2500
    bigg = []
    for k in range(nbig):
        bigg += [(I('big%d' % k), RDF_TYPE, I('Big%d' % k)), (I('big%d' % k), EX + 'p%d' % (k % 7), L('v')), (I('big%d' % k), EX + 'q', I('big%d' % ((k + 1) % nbig)))]
    bnt = to_nt(bigg)
    for fmt in (C.SHEXC, C.SHACL_TURTLE):
        for sink in ('string', 'file'):
            fd, opath = tempfile.mkstemp(prefix="verif_c04_", suffix=".out")
            os.close(fd)
            try:
                def go():
                    sh_ = Shaper(raw_graph=bnt, input_format=C.NT, all_classes_mode=True)
                    if sink == 'string':
                        return sh_.shex_graph(string_output=True, output_format=fmt)
                    sh_.shex_graph(output_file=opath, output_format=fmt)
                    return open(opath, encoding="utf-8").read()
                box = {}
                r = call(lambda: box.setdefault('t', go()))
                stats["big_output_calls"] += 1
                stats["pipeline_calls"] += 1
                if r is not None:
                    stats["exceptions"][r[1]] = stats["exceptions"].get(r[1], 0) + 1
                    viol.append({"what": "a result of %d shapes (more than 5000 lines) written to a %s, %s, raised %s: %s" % (nbig, sink, fmt, r[1], r[2]),
                                 "where": r[3] if len(r) > 3 else "", "big_output": {"classes": nbig, "sink": sink, "format": fmt}})
                elif fmt == C.SHEXC and box.get('t', '').count("\n") < 5000:
                    viol.append({"what": "a result of %d shapes written to a %s has only %d lines" % (nbig, sink, box.get('t', '').count("\n")),
                                 "big_output": {"classes": nbig, "sink": sink, "format": fmt}})
            finally:
                if os.path.exists(opath):
                    os.remove(opath)
    # ---------------- (c) other accepted configurations: every input syntax, shape maps, empty target list
    import rdflib
    stats["syntax_calls"] = {}
    stats["shape_map_calls"] = 0
    FMT = [(C.NT, 'nt'), (C.TURTLE, 'turtle'), (C.TURTLE_ITER, 'nt'), (C.RDF_XML, 'xml'), (C.JSON_LD, 'json-ld'), (C.N3, 'n3')]
    for g, cfg in cases[: (40 if ctx.tier == "quick" else 400)]:
        g = [t for t in g if not (t[2][0] == 'L' and t[2][2] not in (XSD + 'string', XSD + 'integer') and t[2][3] is None and False)]
        nt = to_nt(g)
        rg = rdflib.Graph()
        rg.parse(data=nt, format='nt')
        kw = impl.shaper_kwargs(cfg)
        th = cfg['th'][0] / cfg['th'][1]
        for const, rf in FMT:
            text = nt if rf == 'nt' else rg.serialize(format=rf)
            for fmt in (C.SHEXC, C.SHACL_TURTLE):
                r = call(lambda: Shaper(raw_graph=text, input_format=const, **kw).shex_graph(string_output=True, acceptance_threshold=th, output_format=fmt))
                stats["syntax_calls"][const] = stats["syntax_calls"].get(const, 0) + 1
                stats["pipeline_calls"] += 1
                if r is not None:
                    stats["exceptions"][r[1]] = stats["exceptions"].get(r[1], 0) + 1
                    obs = {"kind": "exception", "exc": r[1], "msg": r[2], "where": r[3] if len(r) > 3 else "", "cfg": cfg, "triples": g,
                           "call": "shex_graph", "format": fmt, "input_format": const}
                    fid = F.match(kf, obs)
                    if fid:
                        hit.add(fid)
                    else:
                        viol.append({"what": "input_format=%s, %s raised %s: %s" % (const, fmt, r[1], r[2]), "where": obs["where"], **pipeline.case_json(g, cfg)})
        # shape map (node selector and FOCUS pattern), both output formats
        subs = [s_[1] for s_, _, _ in g if s_[0] == 'I']
        classes = gen.classes_of(g, cfg['inst_prop'])
        if subs and cfg['inst_prop'] == RDF_TYPE:
            items = ["<%s>@<%sOne>" % (subs[0], EX)]
            if classes:
                items.append("{FOCUS a <%s>}@<%sTwo>" % (sorted(classes)[0], EX))
            kw2 = {k: v for k, v in kw.items() if k not in ('target_classes', 'all_classes_mode')}
            for fmt in (C.SHEXC, C.SHACL_TURTLE):
                r = call(lambda: Shaper(raw_graph=nt, input_format=C.NT, shape_map_raw="\n".join(items), **kw2).shex_graph(
                    string_output=True, acceptance_threshold=th, output_format=fmt))
                stats["shape_map_calls"] += 1
                stats["pipeline_calls"] += 1
                if r is not None:
                    stats["exceptions"][r[1]] = stats["exceptions"].get(r[1], 0) + 1
                    obs = {"kind": "exception", "exc": r[1], "msg": r[2], "where": r[3] if len(r) > 3 else "", "cfg": cfg, "triples": g,
                           "call": "shex_graph", "format": fmt, "shape_map": items}
                    fid = F.match(kf, obs)
                    if fid:
                        hit.add(fid)
                    else:
                        viol.append({"what": "shape map, %s raised %s: %s" % (fmt, r[1], r[2]), "where": obs["where"], "shape_map": items,
                                     **pipeline.case_json(g, cfg)})
    # empty target list: accepted by the constructor (F-C20-3 if the call then raises)
    g0, cfg0 = cases[0]
    r = call(lambda: Shaper(raw_graph=to_nt(g0), input_format=C.NT, target_classes=[]).shex_graph(string_output=True))
    if r is not None:
        fid = F.match(kf, {"kind": "exception", "exc": r[1], "msg": r[2], "empty_targets": True})
        if fid:
            hit.add(fid)
        else:
            viol.append({"what": "target_classes=[] raised %s: %s" % (r[1], r[2]), **pipeline.case_json(g0, dict(cfg0, targets=[]))})
    ir, d2 = base.correspondence(ctx, cases[: len(cases) // 2])
    dis += [d for d in d2 if d["what"] != "implementation gave no result"]
    return base.std_result(ctx, cases, viol, dis, base.known_lines(kf, hit), stats, nontriv, [],
                           "(a) every group of node-kind constraints of one property with bnode?/iri? x 0..%d shape references x counts 1..%d x both insertion "
                           "orders x 3 OR configurations, fed to MergeableConstraints.merge_group in-process; (b) C01 generator + adversarial mixes (IRI and "
                           "blank-node values with/without classes, non-target classes, nodes without outgoing triples, one-instance classes, "
                           "language tags) x accepted configurations x {ShExC, SHACL} x {shex_graph, profile_graph}; (b2) the same with disjunctions enabled "
                           "(with / without allow_redundant_or) and with predicates, classes, object IRIs and datatypes of the schemes urn:, mailto:, ftp:, tag:, a "
                           "one-letter scheme and one with digits / + / . / -; (b3) sequences of shex_graph / profile_graph calls on one Shaper; (b4) Turtle documents of the C07 layout generator through TURTLE_ITER; (b5) shape maps with shapes that end up empty x examples_mode x "
                           "disjunctions x inverse paths x removal of empty shapes" % ((2, 3) if ctx.tier == "quick" else (3, 4)),
                           DEPS)
