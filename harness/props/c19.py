"""C19 — extraction is deterministic across processes.

proof : Props/C19.lean (sets are used for membership only: the removal of empty shapes does not depend on the order of the
        set; the random prefix is reachable only when the four default prefixes are taken; counts do not depend on the
        order in which the triples of the selected nodes arrive)
tie   : the implementation's output order vs the model's (ordered comparison of shapes and constraints) on the NT channel
search: the same jobs run in fresh interpreter processes with different PYTHONHASHSEED values; ShExC compared byte for byte,
        SHACL as canonical graphs
"""
import random, json, os, subprocess, tempfile, shutil, sys
from common import *
import gen, pipeline, model, impl, findings as F
from props import base

PROPS_MODULES = ["ShexerModel.Props.C19"]
DEPS = []
replay = base.replay
PRIORITY = ['', 'weso-s', 'shapes', 'w-shapes']
WORKER = os.path.join(os.path.dirname(os.path.dirname(os.path.abspath(__file__))), "c19_worker.py")


def kwargs_json(cfg):
    kw = impl.shaper_kwargs(cfg)
    return {k: v for k, v in kw.items() if v is not None or k in ('examples_mode',)}


def make_jobs(rng, n):
    import rdflib
    jobs = []
    for i in range(n):
        bn = rng.random() < 0.25
        g = gen.gen_graph(rng, bnodes=bn)
        force_endpoint = i % 4 == 0
        if force_endpoint:
            # a quarter of the jobs go to the endpoint with a graph its result reader can carry (IRI nodes, plain strings, integers):
            # instances with different property sets, so that constraints tie in frequency and their order shows the instance order
            from props.c15 import gen_c15_graph
            bn = False
            g = gen_c15_graph(rng)
        cfg = gen.gen_cfg(rng, g, presentation=True, allow_cap=False)
        cfg['disable_or'] = rng.random() < 0.5
        cfg['allow_redundant_or'] = (not cfg['disable_or']) and rng.random() < 0.5
        nt = to_nt(g)
        kw = kwargs_json(cfg)
        if rng.random() < 0.4:
            # the caller already uses some (never all four) of the default prefixes for shapes
            nsd = dict(kw.get('namespaces_dict') or {})
            for t_i, pre in enumerate(rng.sample(PRIORITY, rng.randint(1, 3))):
                if pre not in nsd.values() and sum(1 for v in nsd.values() if v in PRIORITY) < 3:   # never all four: then the prefix is random by design
                    nsd['http://taken%d.example.org/' % t_i] = pre
            kw['namespaces_dict'] = nsd
        r = rng.random()
        tmode = 'cfg'
        if r < 0.3 and cfg['inst_prop'] == RDF_TYPE:
            classes = sorted(gen.classes_of(g))
            props = sorted({p for _, p, _ in g if p != RDF_TYPE})
            items = []
            if classes:
                items.append("{FOCUS a <%s>}@<%sS1>" % (rng.choice(classes), EX))
            if props:
                items.append("{FOCUS <%s> _}@<%sS2>" % (rng.choice(props), EX))
                items.append('SPARQL "select ?n where { ?n <%s> ?o }"@<%sS3>' % (rng.choice(props), EX))
            if len(classes) >= 2 and rng.random() < 0.6:
                # one shape per class plus an entry whose node has no triple at all: its shape ends up empty and is removed, which must not
                # disturb the order of the shapes that stay
                items = ["{FOCUS a <%s>}@<%sK%d>" % (c, EX, k) for k, c in enumerate(classes)] + ["<%snobody>@<%sGhost>" % (EX, EX)]
                rng.shuffle(items)
                kw['remove_empty_shapes'] = True
                kw = {k: v for k, v in kw.items() if k not in ('target_classes', 'all_classes_mode')}
                kw['shape_map_raw'] = "\n".join(items)
                tmode = 'shapemap'
                items = []
            rng.shuffle(items)
            if items:
                kw = {k: v for k, v in kw.items() if k not in ('target_classes', 'all_classes_mode')}
                kw['shape_map_raw'] = "\n".join(items[: rng.randint(1, len(items))])
                if rng.random() < 0.3:
                    kw['all_classes_mode'] = True
                tmode = 'shapemap'
        dk = 'endpoint' if force_endpoint else rng.choice(['nt', 'turtle', 'xml', 'json-ld', 'n3', 'graph', 'endpoint', 'turtle_iter'])
        if dk == 'turtle_iter' and tmode == 'shapemap':
            dk = 'nt'
        if dk == 'endpoint':
            if bn or any(o[0] == 'L' and (o[3] or o[2] != XSD + 'string') for _, _, o in g):
                dk = 'graph'
        if dk in ('turtle', 'xml', 'json-ld', 'n3'):
            rg = rdflib.Graph()
            rg.parse(data=nt, format='nt')
            lines = sorted(nt.strip().split("\n"))
            text = rg.serialize(format=dk) if dk != 'turtle' else rg.serialize(format='turtle')
            delivery = {'kind': 'text', 'format': dk, 'text': text}
        elif dk in ('nt', 'turtle_iter'):
            delivery = {'kind': 'text', 'format': dk, 'text': nt}
        else:
            delivery = {'kind': dk, 'text': nt}
            if dk == 'endpoint':
                kw.pop('namespaces_to_ignore', None)
        jobs.append({'id': 'j%d' % i, 'kwargs': kw, 'delivery': delivery, 'th': cfg['th'][0] / cfg['th'][1], 'bnodes': bn, 'tmode': tmode,
                     'dk': dk})
    return jobs


def run(ctx):
    rng = random.Random(ctx.seed * 19000013 + 19)
    kf = F.load("C19")
    hit = set()
    viol, dis = [], []
    n = 60 if ctx.tier == "quick" else 400
    seeds = [0, 1, 2, 3] if ctx.tier == "quick" else list(range(12))
    jobs = make_jobs(rng, n)
    stats = {"jobs": n, "hash_seeds": seeds, "delivery": {}, "targets": {}, "with_bnodes": sum(j['bnodes'] for j in jobs), "exceptions": 0}
    for j in jobs:
        stats["delivery"][j['dk']] = stats["delivery"].get(j['dk'], 0) + 1
        stats["targets"][j['tmode']] = stats["targets"].get(j['tmode'], 0) + 1
    tmpdir = tempfile.mkdtemp(prefix="verif_c19_")
    try:
        # a fifth of the line-based jobs are delivered as a list of 3-5 files (the statements dealt out at random): the files must be
        # read in the order given, whatever the process
        for j in jobs:
            if j['dk'] == 'nt' and rng.random() < 0.6:
                lines_ = j['delivery']['text'].strip().split("\n")
                k = rng.randint(3, 5)
                parts = [[] for _ in range(k)]
                for ln in lines_:
                    parts[rng.randrange(k)].append(ln)
                paths = []
                for pi, part in enumerate(parts):
                    pth = os.path.join(tmpdir, "%s_part%d_%s.nt" % (j['id'], pi, rng.choice(['a', 'zz', 'm'])))
                    open(pth, "w").write("\n".join(part) + ("\n" if part else ""))
                    paths.append(pth)
                j['delivery'] = {'kind': 'files', 'paths': paths, 'text': j['delivery']['text']}
                j['dk'] = 'files'
                stats["delivery"]['files'] = stats["delivery"].get('files', 0) + 1
        jf = os.path.join(tmpdir, "jobs.json")
        json.dump(jobs, open(jf, "w"))
        procs = []
        for s in seeds:
            env = dict(os.environ, PYTHONHASHSEED=str(s))
            procs.append((s, subprocess.Popen(["/venv/bin/python", WORKER, jf], stdout=subprocess.PIPE, stderr=subprocess.DEVNULL, env=env, text=True)))
        results = {}
        for s, p in procs:
            out, _ = p.communicate(timeout=3000)
            if p.returncode != 0:
                viol.append({"what": "worker process with PYTHONHASHSEED=%d failed" % s})
                continue
            results[s] = json.loads(out)
        ref_seed = seeds[0]
        for j in jobs:
            outs = {s: results[s][j['id']] for s in results}
            r0 = outs.get(ref_seed)
            if r0 is None:
                continue
            if 'exc' in r0:
                stats["exceptions"] += 1
            for s, r in outs.items():
                if r.get('shex') != r0.get('shex') or r.get('shacl') != r0.get('shacl') or r.get('exc') != r0.get('exc') or r.get('queries') != r0.get('queries'):
                    obs = {"kind": "hashseed", "job": j, "bnodes": j['bnodes'], "delivery": j['dk']}
                    fid = F.match(kf, obs)
                    if fid:
                        hit.add(fid)
                    else:
                        what = "ShExC bytes" if r.get('shex') != r0.get('shex') else "SHACL graph" if r.get('shacl') != r0.get('shacl') else "exception / number of queries"
                        viol.append({"what": "PYTHONHASHSEED=%d and %d give different results (%s); delivery=%s targets=%s" % (ref_seed, s, what, j['dk'], j['tmode']),
                                     "job": j, "a": (r0.get('shex') or r0.get('exc') or '')[:600], "b": (r.get('shex') or r.get('exc') or '')[:600]})
                    break
    finally:
        shutil.rmtree(tmpdir, ignore_errors=True)
    # ordered correspondence with the model on the NT channel (the model has no hashing at all)
    cases = []
    for i in range(100 if ctx.tier == "quick" else 1500):
        g = gen.gen_graph(rng)
        cfg = gen.gen_cfg(rng, g, presentation=False)
        cases.append((g, cfg))
    ir, d2 = base.correspondence(ctx, cases)
    dis += d2
    return base.std_result(ctx, jobs, viol, dis, base.known_lines(kf, hit), stats, sum(1 for j in jobs if j['dk'] not in ('nt', 'turtle_iter')), [],
                           "jobs = C01 generator graphs (a quarter with blank nodes) x presentation options x {class targets, all classes, shape maps with "
                           "FOCUS patterns and SPARQL selectors} x delivery in {NT, TURTLE, RDF/XML, JSON-LD, N3, rdflib Graph, TURTLE_ITER, fake endpoint}; every "
                           "job run in %d fresh interpreter processes with PYTHONHASHSEED = %s; ShExC compared byte for byte, SHACL as canonical graphs, "
                           "number of endpoint queries too" % (len(seeds), seeds), DEPS)
