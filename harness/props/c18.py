"""C18 — results depend only on the arguments, not on output channel or call history.

proof : Props/C18.lean (memoised stages: history irrelevant; line buffer lossless for every length)
tie   : History.step (model, memoised) vs the implementation, call by call, along every sequence
search: every call of every sequence compared with the same call on a fresh Shaper (bytes for ShExC / profile, isomorphism
        for SHACL), file vs string, outputs above 10 000 lines, pairs of Shapers sharing the caller's argument objects
"""
import random, json, itertools, os, tempfile, shutil
from common import *
import gen, pipeline, model, impl, shex_text, compare, findings as F
from props import base
from shexer import consts as C

PROPS_MODULES = ["ShexerModel.Props.C18"]
DEPS = []
replay = base.replay
THS = [(0, 1), (1, 2), (1, 1)]
OPS = [('shex', fmt, ch, th) for fmt in ('shexc', 'shacl') for ch in ('string', 'file') for th in THS] + [('profile', None, 'string', None), ('profile', None, 'file', None)]


def do_call(sh, op, tmpdir, k):
    kind, fmt, ch, th = op
    path = os.path.join(tmpdir, "out%d" % k)
    if kind == 'profile':
        if ch == 'string':
            return sh.profile_graph(string_output=True)
        sh.profile_graph(output_file=path)
        return open(path).read()
    of = C.SHEXC if fmt == 'shexc' else C.SHACL_TURTLE
    if ch == 'string':
        return sh.shex_graph(string_output=True, acceptance_threshold=th[0] / th[1], output_format=of)
    sh.shex_graph(output_file=path, acceptance_threshold=th[0] / th[1], output_format=of)
    return open(path).read()


def same(op, a, b):
    if a == b:
        return True
    if op[0] == 'shex' and op[1] == 'shacl':
        import rdflib
        from rdflib.compare import isomorphic
        try:
            return isomorphic(rdflib.Graph().parse(data=a, format='turtle'), rdflib.Graph().parse(data=b, format='turtle'))
        except Exception:
            return False
    return False


def op_str(op):
    return "%s(%s)" % (op[0], ", ".join(str(x) for x in op[1:] if x is not None))


def run(ctx):
    from shexer.shaper import Shaper
    rng = random.Random(ctx.seed * 18000041 + 18)
    kf = F.load("C18")
    hit = set()
    viol, dis = [], []
    stats = {"sequences": 0, "calls": 0, "by_length": {}, "shared_object_pairs": 0, "big_outputs": [], "model_calls_compared": 0}
    tmpdir = tempfile.mkdtemp(prefix="verif_c18_")
    try:
        ngraphs = 3 if ctx.tier == "quick" else 8
        graphs = []
        for i in range(ngraphs):
            g = gen.gen_graph(rng, bnodes=(i % 3 != 2), ninst=(None if i % 3 != 2 else rng.randint(5, 8)))      # the stem graph: IRIs only (a blank node among the instances means no stem)
            cfg = gen.gen_cfg(rng, g, presentation=False, allow_cap=False, allow_ignore=False)
            cfg['report'] = 'mixed'
            cfg['disable_comments'] = False
            if i % 3 == 1:
                cfg['examples'] = 'all'
            if i % 3 == 2:
                cfg['detect_min_iri'] = True
                # instances spread over hosts that share their first letters: the common stem of a class is then
                # something like `http://ex`, cut back to `http://` - a value on which cutting back once and twice differ if the rule is applied to
                # the wrong string; the stored stems are re-used by every later call
                hosts = ['http://example.org/', 'http://exotic.org/', 'http://excel.example/']
                ren = lambda t: ('I', hosts[int(t[1][len(EX) + 1:]) % len(hosts)] + t[1][len(EX):]) if t[0] == 'I' and t[1].startswith(EX + 'n') and t[1][len(EX) + 1:].isdigit() else t
                g = [(ren(s_), p_, ren(o_)) for s_, p_, o_ in g]
                cfg['all_compliant'] = True
            graphs.append((g, cfg))
        # one more graph: disjunctions enabled on a graph that really produces them (several values per instance, typed and untyped), and
        # a class and a property whose IRIs are not ASCII (file and string channels must agree byte for byte)
        from props import c13 as _c13
        g_or = [tuple(('I', t[1].replace(EX + 'Dog', EX + 'Perr\u00f3')) if isinstance(t, tuple) and t[0] == 'I' else t for t in tr) for tr in _c13.mixed_values_graph(rng)]
        g_or = [(s_, p_.replace(EX + 'name', EX + 'a\u00f1o'), o_) for s_, p_, o_ in g_or]
        cfg_or = gen.default_cfg()
        cfg_or.update(report='mixed', disable_comments=False, disable_or=False, allow_redundant_or=True, inverse=rng.random() < 0.5, th=(0, 1))
        graphs.append((g_or, cfg_or))
        seqs = [s for n in (1, 2) for s in itertools.product(OPS, repeat=n)]
        all3 = list(itertools.product(OPS, repeat=3))
        seqs += all3 if ctx.tier == "thorough" else rng.sample(all3, 250)
        mlines, mjobs = [], []
        for gi, (g, cfg) in enumerate(graphs):
            nt = to_nt(g)
            kw = impl.shaper_kwargs(cfg)
            fresh = {}
            def fresh_out(op):
                key = (op[0], op[1], op[3])
                if key not in fresh:
                    fresh[key] = do_call(Shaper(raw_graph=nt, input_format=C.NT, **kw), (op[0], op[1], 'string', op[3]), tmpdir, 0)
                return fresh[key]
            use = seqs if gi == 0 or ctx.tier == "thorough" else rng.sample(seqs, 150)
            for si, seq in enumerate(use):
                stats["sequences"] += 1
                stats["by_length"][len(seq)] = stats["by_length"].get(len(seq), 0) + 1
                try:
                    sh = Shaper(raw_graph=nt, input_format=C.NT, **kw)
                    outs = []
                    for k, op in enumerate(seq):
                        outs.append(do_call(sh, op, tmpdir, k))
                        stats["calls"] += 1
                except Exception as e:
                    viol.append({"what": "call sequence raised %s: %s" % (type(e).__name__, str(e)[:120]), "sequence": [op_str(o) for o in seq],
                                 **pipeline.case_json(g, cfg)})
                    continue
                for k, (op, out) in enumerate(zip(seq, outs)):
                    exp = fresh_out(op)
                    if not same(op, out, exp):
                        obs = {"kind": "history", "sequence": [op_str(o) for o in seq], "call": k}
                        fid = F.match(kf, obs)
                        if fid:
                            hit.add(fid)
                        else:
                            viol.append({"what": "call #%d %s differs from the same call on a fresh Shaper (%s)" % (
                                k, op_str(op), "file vs string" if op[2] == 'file' and k == 0 else "call history"),
                                "sequence": [op_str(o) for o in seq], "got_head": out[:300], "fresh_head": exp[:300], **pipeline.case_json(g, cfg)})
                        break
                # model, call by call (ShExC string calls of a sample of sequences)
                if ctx.driver_ok and si % 7 == 0 and cfg.get('examples') is None and not cfg.get('detect_min_iri'):
                    cid = "h%d_%d" % (gi, si)
                    mlines += model.case_lines(g, cfg, 'history', cid)[:-1]
                    for op in seq:
                        mlines.append("NT\t" + ("profile" if op[0] == 'profile' else "shex %s %d %d" % (op[1], op[3][0], op[3][1])))
                    mlines.append("RUN\thistory\t%s" % cid)
                    mjobs.append((cid, g, cfg, seq, outs))
        if mjobs:
            mres = model.run_driver(mlines)
            for cid, g, cfg, seq, outs in mjobs:
                lines = mres.get(cid, [])
                calls, cur = [], None
                for ln in lines:
                    if ln.startswith("CALL\t"):
                        cur = []
                        calls.append(cur)
                    elif cur is not None:
                        cur.append(ln)
                for k, (op, out) in enumerate(zip(seq, outs)):
                    if op[0] == 'shex' and op[1] == 'shexc' and k < len(calls):
                        stats["model_calls_compared"] += 1
                        try:
                            parsed = shex_text.parse(out)
                        except shex_text.ShexParseError as e:
                            dis.append({"what": "unparsable output in a sequence: %s" % e, "sequence": [op_str(o) for o in seq]})
                            continue
                        c2 = dict(cfg, th=op[3])
                        d = compare.compare(model.parse_shapes(calls[k]), parsed, c2)
                        if d:
                            dis.append({"what": "History.step (model) vs implementation at call #%d" % k, "sequence": [op_str(o) for o in seq],
                                        "diffs": d[:4], **pipeline.case_json(g, cfg)})
        # Shapers sharing the caller's argument objects
        for gi, (g, cfg) in enumerate(graphs):
            nt = to_nt(g)
            kw = impl.shaper_kwargs(cfg)
            shared_ns = kw['namespaces_dict']
            ref = Shaper(raw_graph=nt, input_format=C.NT, **dict(kw, namespaces_dict=dict(shared_ns))).shex_graph(string_output=True)
            before = dict(shared_ns)
            a = Shaper(raw_graph=nt, input_format=C.NT, **kw)
            ra1 = a.shex_graph(string_output=True)
            b = Shaper(raw_graph=nt, input_format=C.NT, **dict(kw, shapes_namespace="http://other.shapes.org/"))
            rb = b.shex_graph(string_output=True, output_format=C.SHACL_TURTLE)
            c = Shaper(raw_graph=nt, input_format=C.NT, **kw)
            rc = c.shex_graph(string_output=True)
            ra2 = a.shex_graph(string_output=True)
            stats["shared_object_pairs"] += 1
            if not (ra1 == ref and rc == ref and ra2 == ref):
                viol.append({"what": "Shapers sharing the caller's namespaces dict influence each other", "first==ref": ra1 == ref, "third==ref": rc == ref,
                             "first_again==ref": ra2 == ref, **pipeline.case_json(g, cfg)})
            if shared_ns != before:
                viol.append({"what": "the caller's namespaces dict was modified", "before": before, "after": dict(shared_ns), **pipeline.case_json(g, cfg)})
        # one list of target classes (prefixed names) handed to two Shapers whose namespaces_dict bind the prefix differently: each must
        # read the names with its own dictionary, and the caller's list stays as it was; same for the list of ignored namespaces
        stats["shared_target_lists"] = 0
        nt_two = ""
        for ns_, tag in (("http://people.example.org/", "p"), ("http://staff.example.org/", "s")):
            for k in range(2):
                nt_two += "<%sn%d> <%s> <%sPerson> .\n<%sn%d> <%s%s_only> \"x\" .\n" % (ns_, k, RDF_TYPE, ns_, ns_, k, ns_, tag)
        for rep in range(3):
            targets = ["ex:Person"]
            ignore = ["http://nowhere.example.org/"]
            t_before, i_before = list(targets), list(ignore)
            outs = {}
            order = [("http://staff.example.org/", "s"), ("http://people.example.org/", "p")] if rep % 2 else [("http://people.example.org/", "p"), ("http://staff.example.org/", "s")]
            for ns_, tag in order + order[:1]:
                sh = Shaper(raw_graph=nt_two, input_format=C.NT, target_classes=targets, namespaces_dict={ns_: "ex"}, namespaces_to_ignore=ignore)
                outs.setdefault(tag, []).append(sh.shex_graph(string_output=True))
            stats["shared_target_lists"] += 1
            for tag, texts in outs.items():
                fresh = Shaper(raw_graph=nt_two, input_format=C.NT, target_classes=["ex:Person"],
                               namespaces_dict={("http://staff.example.org/" if tag == "s" else "http://people.example.org/"): "ex"},
                               namespaces_to_ignore=["http://nowhere.example.org/"]).shex_graph(string_output=True)
                if any(t != fresh for t in texts) or (tag + "_only") not in fresh:
                    viol.append({"what": "two Shapers given the same target_classes list object (prefixed names) and different namespaces_dict: the "
                                         "one binding ex: to the %s namespace does not get the result of a fresh run" % ("staff" if tag == "s" else "people"),
                                 "order": [t for _, t in order], "got": texts[0][-300:], "fresh": fresh[-300:], "nt": nt_two})
            if targets != t_before or ignore != i_before:
                viol.append({"what": "the caller's target_classes / namespaces_to_ignore list was modified", "before": [t_before, i_before],
                             "after": [list(targets), list(ignore)], "nt": nt_two})
        # two Shapers over one graph with DIFFERENT namespaces_to_ignore, one after the other in this process: each must equal the run on the
        # input without the predicates it ignores (that reference run has no filter at all)
        stats["ignore_list_pairs"] = 0
        NSA, NSB = "http://a.example.org/", "http://b.example.org/"
        nt_ab = "".join("<http://example.org/n%d> <%s> <http://example.org/K> .\n<http://example.org/n%d> <%sname> \"x\" .\n<http://example.org/n%d> <%scode> \"y\" .\n"
                        % (k, RDF_TYPE, k, NSA, k, NSB) for k in range(3))
        def without(ns_):
            return "".join(l_ + "\n" for l_ in nt_ab.strip().split("\n") if ("<" + ns_) not in l_.split(" ")[1])
        for rep in range(2):
            order = [NSA, NSB] if rep == 0 else [NSB, NSA]
            for ns_ in order + order[:1]:
                got = Shaper(raw_graph=nt_ab, input_format=C.NT, all_classes_mode=True, namespaces_to_ignore=[ns_]).shex_graph(string_output=True)
                ref = Shaper(raw_graph=without(ns_), input_format=C.NT, all_classes_mode=True).shex_graph(string_output=True)
                stats["ignore_list_pairs"] += 1
                if got != ref:
                    viol.append({"what": "a Shaper ignoring %s, run after Shapers with another namespaces_to_ignore in the same process, differs from the run on the "
                                         "input without the ignored predicates" % ns_, "order": order, "got": got[-400:], "reference": ref[-400:], "nt": nt_ab})
                    break
        # one rdflib Graph object handed to two Shapers with different namespaces_dict: the second must get what it gets on a graph of its own,
        # and the caller's graph (its namespace bindings, its triples) stays as it was
        import rdflib
        stats["shared_rdflib_graphs"] = 0
        for rep in range(3):
            nt_g = "".join("<http://example.org/vocab#i%d> <%s> <http://example.org/vocab#Thing> .\n<http://example.org/vocab#i%d> <http://example.org/vocab#name> \"n\" .\n"
                           "<http://example.org/vocab#i%d> <http://purl.example.org/dc/title> \"t\" .\n" % (k, RDF_TYPE, k, k) for k in range(3))
            def mk():
                g_ = rdflib.Graph()
                g_.parse(data=nt_g, format="nt")
                return g_
            shared_g = mk()
            binds_before = sorted((str(a_), str(b_)) for a_, b_ in shared_g.namespaces())
            n_before = len(shared_g)
            dict_a = {"http://example.org/vocab#": "v", "http://purl.example.org/dc/": "dc"} if rep % 2 == 0 else {"http://example.org/vocab#": "dc"}
            dict_b = {} if rep < 2 else {"http://purl.example.org/dc/": "v"}
            outs_shared, outs_own = [], []
            for fmt in (C.SHEXC, C.SHACL_TURTLE):
                Shaper(rdflib_graph=shared_g, all_classes_mode=True, namespaces_dict=dict(dict_a)).shex_graph(string_output=True, output_format=fmt)
                outs_shared.append(Shaper(rdflib_graph=shared_g, all_classes_mode=True, namespaces_dict=dict(dict_b)).shex_graph(string_output=True, output_format=fmt))
                outs_own.append(Shaper(rdflib_graph=mk(), all_classes_mode=True, namespaces_dict=dict(dict_b)).shex_graph(string_output=True, output_format=fmt))
            stats["shared_rdflib_graphs"] += 1
            pref = lambda t: sorted(l_ for l_ in t.split("\n") if l_.lower().startswith(("prefix", "@prefix")))
            if outs_shared[0] != outs_own[0] or pref(outs_shared[1]) != pref(outs_own[1]):
                viol.append({"what": "a Shaper given an rdflib Graph that an earlier Shaper (other namespaces_dict) has used does not get the result of a run on its own graph",
                             "first_namespaces_dict": dict_a, "second_namespaces_dict": dict_b, "got": outs_shared[0][:500], "own_graph": outs_own[0][:500], "nt": nt_g})
            binds_after = sorted((str(a_), str(b_)) for a_, b_ in shared_g.namespaces())
            if binds_after != binds_before or len(shared_g) != n_before:
                viol.append({"what": "the caller's rdflib Graph was modified (namespace bindings / triples)", "added_bindings": [b_ for b_ in binds_after if b_ not in binds_before],
                             "first_namespaces_dict": dict_a, "nt": nt_g})
        # outputs above the flush boundaries (5000, 10000 lines)
        def big_graph(nclasses):
            return "".join('<http://e.org/i%d> <%s> <http://e.org/K%d> .\n<http://e.org/i%d> <http://e.org/p%d> "x" .\n' % (i, RDF_TYPE, i, i, i % 7)
                           for i in range(nclasses))
        l1 = Shaper(raw_graph=big_graph(1), input_format=C.NT, all_classes_mode=True).shex_graph(string_output=True).count("\n")
        l2 = Shaper(raw_graph=big_graph(2), input_format=C.NT, all_classes_mode=True).shex_graph(string_output=True).count("\n")
        for nclasses in ([715, 1431] if ctx.tier == "quick" else [714, 715, 716, 1250, 1429, 1430, 1431, 2600]):
            big = "".join('<http://e.org/i%d> <%s> <http://e.org/K%d> .\n<http://e.org/i%d> <http://e.org/p%d> "x" .\n' % (i, RDF_TYPE, i, i, i % 7)
                          for i in range(nclasses))
            s1 = Shaper(raw_graph=big, input_format=C.NT, all_classes_mode=True)
            t = s1.shex_graph(string_output=True)
            path = os.path.join(tmpdir, "big.shex")
            Shaper(raw_graph=big, input_format=C.NT, all_classes_mode=True).shex_graph(output_file=path)
            f = open(path).read()
            nlines = t.count("\n")
            stats["big_outputs"].append(nlines)
            if f != t or nlines != l1 + (l2 - l1) * (nclasses - 1) or any(t.count(':K%d\n' % i) != 1 for i in (0, nclasses // 2, nclasses - 1)):
                viol.append({"what": "output of %d lines: file and string differ, or lines are lost / repeated (expected %d)" % (nlines, l1 + (l2 - l1) * (nclasses - 1)),
                             "classes": nclasses, "file_lines": f.count("\n")})
    finally:
        shutil.rmtree(tmpdir, ignore_errors=True)
    return base.std_result(ctx, list(range(stats["sequences"])), viol, dis, base.known_lines(kf, hit), stats, stats["sequences"] - stats["by_length"].get(1, 0), [],
                           "call sequences over {shex_graph(ShExC|SHACL, string|file, threshold 0|.5|1), profile_graph(string|file)}: all of length <= 2, "
                           "%s of length 3, on graphs with / without examples_mode and detect_minimal_iri; three Shapers sharing the caller's namespaces "
                           "dict; outputs of 5 000 - 18 000 lines around the 5000-line flush boundaries" % ("all" if ctx.tier == "thorough" else "a sample"), DEPS)
