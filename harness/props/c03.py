"""C03 — in all-compliant mode every instance conforms to its extracted shape.

proof : Props/C03.lean
tie   : ordered correspondence on the schema-consistent generator x 2^4 switches x {direct, inverse}
search: an independent ShEx validator for the emitted fragment, run on the implementation's own output:
        every selected node against its shape under the typing 'node is an instance of S iff it was used to extract S'
"""
import random, json
from common import *
import gen, pipeline, model, findings as F, oracle
from props import base

PROPS_MODULES = ["ShexerModel.Props.C03", "ShexerModel.Props.C03opt", "ShexerModel.Props.C03each"]
DEPS = ["relax_cardinality", "generalize_cardinality"]
replay = base.replay


def card_interval(card):
    if card == '*': return (0, None)
    if card == '+': return (1, None)
    if card == '?': return (0, 1)
    k = int(card[1:-1])
    return (k, k)


class G:
    def __init__(self, triples, cfg):
        self.sel = oracle.selection(triples, cfg)
        self.out, self.inn = {}, {}
        for s, p, o in triples:
            self.out.setdefault((s[1], p), []).append(o)
            if o[0] in 'IB':
                self.inn.setdefault((o[1], p), []).append(s)
        self.cfg = cfg

    def labels_of(self, key):
        return [oracle.shape_label(c, SHAPES_NS) for c in self.sel.get(key, [])]


def matches(G_, v, t, prop, cfg, value_set=True):
    if prop == cfg['inst_prop'] and value_set:
        return v[0] in 'IB' and v[1] == t       # `[ex:C]`: the value is that node
    if t == 'IRI': return v[0] == 'I'
    if t == 'BNode': return v[0] == 'B'
    if t == 'NONLITERAL': return v[0] in 'IB'
    if t.startswith('%<'):
        return v[0] in 'IB' and t[2:-1] in G_.labels_of(v[1])
    if v[0] != 'L':
        return False
    return term_dt(v) == t


def distribute(vals, tcs, m):
    """ShEx EachOf proper (mirror of Spec.distribute): can every value be given to ONE constraint it matches so that every constraint
    receives a number of values in its interval?"""
    ivs = [card_interval(st['card']) for st in tcs]
    options = sorted(([i for i, st in enumerate(tcs) if m(st, v)] for v in vals), key=len)

    def go(k, counts):
        if k == len(options):
            return all(c >= lo and (hi is None or c <= hi) for c, (lo, hi) in zip(counts, ivs))
        for i in options[k]:
            if ivs[i][1] is None or counts[i] < ivs[i][1]:
                counts[i] += 1
                if go(k + 1, counts):
                    return True
                counts[i] -= 1
        return False
    return go(0, [0] * len(tcs))


def conformance_errors(triples, cfg, parsed, G_=None, lm=None):
    G_ = G_ or G(triples, cfg)
    lm = lm or oracle.classes_for_labels(triples, cfg)
    errs = []
    shex_nc = conformance_errors.shex_nc = set()
    for sh in parsed['shapes']:
        cl = lm.get(sh['label'])
        if not cl or len(cl) != 1:
            continue
        cls = cl[0]
        for n, classes in G_.sel.items():
            if cls not in classes:
                continue
            preds = {(st['inv'], st['prop']) for st in sh['stmts']}
            for inv, p in preds:
                vals = G_.inn.get((n, p), []) if inv else G_.out.get((n, p), [])
                tcs = [st for st in sh['stmts'] if st['inv'] == inv and st['prop'] == p]
                for v in vals:
                    m = [st for st in tcs if any(matches(G_, v, t, p, cfg, vs) for t, vs in zip(st['types'], st.get('value_set') or [True] * len(st['types'])))]
                    if len(m) == 0:
                        errs.append({'kind': 'value-unmatched', 'inv': inv, 'prop': p, 'value': list(v), 'node': n, 'class': cls})
                bad = False
                for st in tcs:
                    k = sum(1 for v in vals if any(matches(G_, v, t, p, cfg, vs) for t, vs in zip(st['types'], st.get('value_set') or [True] * len(st['types']))))
                    lo, hi = card_interval(st['card'])
                    if k < lo or (hi is not None and k > hi):
                        bad = True
                        errs.append({'kind': 'cardinality', 'inv': inv, 'prop': p, 'types': st['types'], 'card': st['card'], 'count': k,
                                     'node': n, 'class': cls})
                ok = distribute(vals, tcs, lambda st, v: any(matches(G_, v, t, p, cfg, vs) for t, vs in zip(st['types'], st.get('value_set') or [True] * len(st['types']))))
                if not ok:
                    shex_nc.add((cls, n))
                    if not bad and all(any(matches(G_, v, t, p, cfg, vs) for st in tcs for t, vs in zip(st['types'], st.get('value_set') or [True] * len(st['types']))) for v in vals):
                        # every count is in its interval taken alone, yet the values cannot be shared out (a constraint listed twice, overlapping constraints)
                        errs.append({'kind': 'distribution', 'inv': inv, 'prop': p, 'constraints': [(st['types'], st['card']) for st in tcs],
                                     'values': len(vals), 'node': n, 'class': cls})
    return errs


def lean_nonconforming(cases, ir):
    """the Lean ShEx semantics (Spec/ShExSem.lean) on the implementation's own shapes"""
    lines = []
    for i, ((g, cfg), r) in enumerate(zip(cases, ir)):
        if r is None or r[0] != 'ok':
            continue
        lm = oracle.classes_for_labels(g, cfg)
        body = model.case_lines(g, oracle.spec_cfg(cfg), 'conf', "c%d" % i, sel_flags=oracle.cap_keep_flags(g, cfg))
        sl = []
        for sh in r[1]['shapes']:
            cl = lm.get(sh['label'])
            if not cl or len(cl) != 1:
                continue
            sl.append("SH\t%s\t%s\t%d" % ('%<' + sh['label'] + '>', cl[0], sh['n'] or 0))
            for st in sh['stmts']:
                sl.append("S\t%s\t%s\t%s\t%s" % ('I' if st['inv'] else 'D', st['prop'], "|".join(st['types']), st['card']))
        lines += body[:-1] + sl + body[-1:]
    res = model.run_driver(lines) if lines else {}
    out = {}
    for i in range(len(cases)):
        out[i] = (set((ln.split("\t")[1], ln.split("\t")[2]) for ln in res.get("c%d" % i, []) if ln.startswith("NC\t")),
                  set((ln.split("\t")[1], ln.split("\t")[2]) for ln in res.get("c%d" % i, []) if ln.startswith("NX\t")))
    return out


def dangling_entries_family(ctx, rng, n, kf, stats, viol, reproduced):
    """every class selected by a shape-map entry `{FOCUS a <C>}@<label of C>` plus an entry whose node has no triple at all: its shape
    ends empty, is removed, and every remaining shape goes through the pruning of references to removed shapes
    (ClassShexer._clean_empty_shapes -> strategy.remove_statements_to_gone_shapes) in both directions; the instances must still conform"""
    import impl
    from shexer import consts as C
    for i in range(n):
        ren = lambda t: ('I', EX + 'bn_' + t[1][2:]) if t[0] == 'B' else t     # shape-map selectors name IRIs
        g = [(ren(s_), p_, ren(o_)) for s_, p_, o_ in gen.gen_schema_graph(rng)]
        classes = gen.classes_of(g)
        cfg = gen.default_cfg()
        cfg.update(all_compliant=True, keep_less_specific=True, allow_opt=rng.random() < 0.5, disable_exact=rng.random() < 0.5,
                   discard_useless=rng.random() < 0.5, inverse=rng.random() < 0.7, report='mixed', remove_empty=True, target_mode='all')
        entries = ["{FOCUS <%s> <%s>}@<%s>" % (RDF_TYPE, c, oracle.shape_label(c, cfg['shapes_ns'])) for c in classes]
        ghosts = rng.randint(0, 2)
        for k in range(ghosts):
            entries.insert(rng.randint(0, len(entries)), "<%sghost%d>@<%sGhost%d>" % (EX, k, cfg['shapes_ns'], k))
        text = "\n".join(entries) + "\n"
        r = impl.run_shapes(g, cfg, all_classes_mode=False, shape_map_raw=text, shape_map_format=C.FIXED_SHAPE_MAP)
        stats["dangling_entry_cases"] += 1
        stats["dangling_entries"] += ghosts
        stats["dangling_with_inverse"] += bool(ghosts and cfg['inverse'])
        case = dict(pipeline.case_json(g, cfg), shape_map=text)
        if r[0] != 'ok':
            viol.append({"what": "implementation gave no result with a shape map naming a node without triples", "outcome": list(r[:3]), **case})
            continue
        labels = [sh['label'] for sh in r[1]['shapes']]
        if len(set(labels)) != len(labels) or any(('Ghost%d' % k) in l for l in labels for k in range(ghosts)):
            viol.append({"what": "empty shape kept / shape repeated although remove_empty_shapes is on", "labels": labels, "shexc": r[2], **case})
            continue
        for e in conformance_errors(g, cfg, r[1]):
            obs = {"kind": "conformance", "error": e, "triples": g, "cfg": cfg, "parsed": r[1], "strict": True}
            fid = F.match(kf, obs)
            if fid:
                reproduced.add(fid)
            else:
                viol.append({"what": "shape map with a dangling entry: a node used to extract a shape does not conform to it: " + e['kind'],
                             "error": e, "strict_domain": True, "shexc": r[2], **case})


def run(ctx):
    rng = random.Random(ctx.seed * 122949823 + 3)
    kf = F.load("C03")
    n = 500 if ctx.tier == "quick" else 6000
    cases, domain = [], []
    for i in range(n):
        strict = rng.random() < 0.7
        g = gen.gen_schema_graph(rng) if strict else gen.gen_graph(rng)
        if strict and rng.random() < 0.15:
            # every typed IRI node carries its own address as a plain string (dcterms:identifier style): still a literal value
            typed = list(dict.fromkeys(s_ for s_, p_, o_ in g if p_ == RDF_TYPE and s_[0] == 'I'))
            g = g + [(s_, EX + 'identifier', L(s_[1])) for s_ in typed]
        if rng.random() < 0.2:
            g = list(dict.fromkeys(gen.spice_literals(rng, g)))      # awkward but legal lexical forms (escaped quotes, '@', '^^', Unicode line boundaries)
        for j in range(2 if ctx.tier == "quick" else 4):
            cfg = gen.default_cfg()
            cfg['all_compliant'] = True
            cfg['keep_less_specific'] = True if strict else rng.random() < 0.5
            cfg['allow_opt'] = rng.random() < 0.5
            cfg['disable_exact'] = rng.random() < 0.5
            cfg['discard_useless'] = rng.random() < 0.5
            cfg['inverse'] = rng.random() < 0.5
            cfg['report'] = 'mixed'
            cases.append((g, cfg))
            domain.append(strict)
    # mode off never changes a cardinality: pairs
    pairs = []
    for i in range(0, len(cases), 7):
        g, cfg = cases[i]
        c_off = dict(cfg, all_compliant=False, disable_exact=False)
        c_on = dict(cfg, all_compliant=False, disable_exact=False, allow_opt=not cfg['allow_opt'])
        pairs.append(len(cases))
        cases += [(g, c_off), (g, c_on)]
        domain += [None, None]
    ir, dis = base.correspondence(ctx, cases)
    viol, reproduced = [], set()
    stats = {"strict_domain": 0, "general": 0, "instance_shape_pairs": 0, "relaxed_opt": 0, "relaxed_star": 0, "errors_outside_strict_domain": 0,
             "shex_distribution_differs_from_independent": 0}
    nontriv = 0
    lean_nc = lean_nonconforming(cases, [r if d is not None else None for r, d in zip(ir, domain)]) if ctx.driver_ok else None
    for ci, ((g, cfg), r, strict) in enumerate(zip(cases, ir, domain)):
        if strict is None:
            continue
        if r[0] != 'ok':
            viol.append({"what": "implementation gave no result", "outcome": list(r[:3]), **pipeline.case_json(g, cfg)})
            continue
        stats["strict_domain" if strict else "general"] += 1
        errs = conformance_errors(g, cfg, r[1])
        if lean_nc is not None:
            py_nc = set((e['class'], e['node']) for e in errs if e['kind'] != 'distribution')
            py_nx = set(conformance_errors.shex_nc)
            for what, a, b in (("independent reading, Spec/ShExSem.lean", py_nc, lean_nc[ci][0]), ("EachOf distribution, Spec/ShExEachOf.lean", py_nx, lean_nc[ci][1])):
                if a != b:
                    dis.append({"what": "Lean ShEx semantics (%s) vs harness validator on the implementation's shapes" % what,
                                "only_python": sorted(a - b)[:5], "only_lean": sorted(b - a)[:5],
                                "shexc": r[2], **pipeline.case_json(g, cfg)})
            stats["shex_distribution_differs_from_independent"] += py_nc != py_nx
        stats["instance_shape_pairs"] += sum(sh['n'] or 0 for sh in r[1]['shapes'])
        stats["relaxed_opt"] += sum(1 for sh in r[1]['shapes'] for st in sh['stmts'] if st['card'] == '?')
        stats["relaxed_star"] += sum(1 for sh in r[1]['shapes'] for st in sh['stmts'] if st['card'] == '*')
        nontriv += any(st['card'] in '?*' for sh in r[1]['shapes'] for st in sh['stmts'])
        for e in errs:
            obs = {"kind": "conformance", "error": e, "triples": g, "cfg": cfg, "parsed": r[1], "strict": strict}
            fid = F.match(kf, obs)
            if fid:
                reproduced.add(fid)
                stats["errors_outside_strict_domain"] += 1
            else:
                viol.append({"what": "a node used to extract a shape does not conform to it: " + e['kind'], "error": e, "strict_domain": strict,
                             "shexc": r[2], **pipeline.case_json(g, cfg)})
    for i in pairs:
        (g, c1), r1, r2 = cases[i], ir[i], ir[i + 1]
        if r1[0] == 'ok' and r2[0] == 'ok':
            a = [(sh['label'], [(st['inv'], st['prop'], tuple(st['types']), st['card']) for st in sh['stmts']]) for sh in r1[1]['shapes']]
            b = [(sh['label'], [(st['inv'], st['prop'], tuple(st['types']), st['card']) for st in sh['stmts']]) for sh in r2[1]['shapes']]
            if a != b or any(st['card'] in '?*' for sh in r1[1]['shapes'] for st in sh['stmts']):
                viol.append({"what": "with the mode off a cardinality was rewritten (or depends on allow_opt_cardinality)", **pipeline.case_json(g, c1)})
    # a Shaper that has already answered at a higher threshold: the schema of a later call (threshold 0, all-compliant) must still be
    # respected by every instance - what the earlier call filtered must not be missing from the later one
    from shexer.shaper import Shaper as _Sh3
    from shexer import consts as _C3
    import impl as _impl3, shex_text as _st3
    stats["later_call_cases"] = 0
    for ci in range(0, min(len(cases), 400 if ctx.tier == "quick" else 4000), 5):
        (g, cfg), strict = cases[ci], domain[ci]
        if not strict:
            continue
        kw = _impl3.shaper_kwargs(cfg)
        try:
            sh_ = _Sh3(raw_graph=to_nt(g), input_format=_C3.NT, **kw)
            sh_.shex_graph(string_output=True, acceptance_threshold=rng.choice([0.5, 0.34, 0.75]))
            text2 = sh_.shex_graph(string_output=True, acceptance_threshold=0)
            parsed2 = _st3.parse(text2)
        except Exception as e:
            viol.append({"what": "second call on one Shaper (threshold t > 0, then 0): %s %s" % (type(e).__name__, str(e)[:120]), **pipeline.case_json(g, cfg)})
            continue
        stats["later_call_cases"] += 1
        for e in conformance_errors(g, dict(cfg, th=[0, 1]), parsed2):
            obs = {"kind": "conformance", "error": e, "triples": g, "cfg": cfg, "parsed": parsed2, "strict": strict}
            if not F.match(kf, obs):
                viol.append({"what": "after an earlier call at a higher threshold, a node does not conform to the shape of the call at threshold 0: " + e['kind'],
                             "error": e, "strict_domain": strict, "shexc": text2, **pipeline.case_json(g, dict(cfg, th=[0, 1]))})
                break
    stats.update(dangling_entry_cases=0, dangling_entries=0, dangling_with_inverse=0)
    dangling_entries_family(ctx, random.Random(ctx.seed * 7919 + 33), 120 if ctx.tier == "quick" else 2500, kf, stats, viol, reproduced)
    # shape-map targets: the family of C10 (selection, shapes, exact figures), with inverse paths and removal of empty shapes as generated
    v3, d3, st3 = base.shape_map_cases(ctx, 40 if ctx.tier == "quick" else 500, "conformance presupposes the right instances and figures")
    viol += v3
    dis += d3
    stats["shape_map_cases"] = st3
    return base.std_result(ctx, cases, viol, dis, base.known_lines(kf, reproduced), stats, nontriv, [],
                           "70 % schema-consistent graphs (strict domain, keep_less_specific=True) and 30 % general graphs, threshold 0, "
                           "all_instances_are_compliant_mode on, the four remaining switches random; every (instance, shape) pair validated; "
                           "non-trivial = some constraint was relaxed to ? or *", DEPS,
                           ["shape references are validated against the typing 'instance of S iff used to extract S' (one consistent typing suffices)"])
