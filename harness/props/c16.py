"""C16 — restriction options equal restricting the input.

proof : Props/C16.lean (namespaces_to_ignore = filter of the feature pass; cap = selection on the restricted document)
tie   : ordered correspondence with cap / ignored namespaces varied
search: option vs restricted document on fresh implementation runs; cap figures against the Lean Spec
"""
import random, json
from common import *
import gen, pipeline, model, findings as F, oracle
from props import base, c01

PROPS_MODULES = ["ShexerModel.Props.C16", "ShexerModel.Props.GenStrNsFilter"]
DEPS = ["S.check_if_property_belongs_to_namespace_list"]
replay = base.replay

NS_SETS = [[EX], [EX + 'deep/'], [EX, EX + 'deep/'], [EX + 'deep/', EX], [RDF], [EX + 'dee'], ['http://other.example/'],
           # entries that end in neither '/' nor '#': a plain string prefix of property names filters its direct children, the bare host filters nothing
           [EX + 'p'], [EX[:-1]], [EX + 'deep/p', EX + 'deep/er/p'], ['http://example.org/p', RDF],
           # hash namespaces next to slash namespaces on one path (`.../onto#p1` and `.../p0` agree up to the last '/'), two hash namespaces in one folder
           [EX + 'onto#'], [EX + 'voc#'], [EX, EX + 'onto#'], [EX + 'onto#', EX + 'deep/'], [EX + 'voc#', EX + 'onto#'], [EX + 'onto']]


def deep_graph(rng):
    g = gen.gen_graph(rng, nprops=rng.randint(2, 4))
    out = []
    for s, p, o in g:
        if p.startswith(EX + 'p') and p[-1] in '13' and rng.random() < 0.8:
            p = EX + 'deep/' + p[len(EX):]
        elif p.startswith(EX + 'p') and p[-1] == '2' and rng.random() < 0.5:
            p = EX + 'deep/er/' + p[len(EX):]
        elif p.startswith(EX + 'p') and p[-1] in '02' and rng.random() < 0.45:
            p = EX + rng.choice(['onto#', 'onto#', 'voc#']) + p[len(EX):]
        out.append((s, p, o))
    return out


def direct_child(prop, ns):
    return prop.startswith(ns) and '/' not in prop[len(ns):] and '#' not in prop[len(ns):]


def shape_sig(parsed):
    return [(sh['label'], sh['n'], [(st['inv'], st['prop'], tuple(st['types']), st['card'], st['n'],
                                     tuple((c['ty'], c['card'], c['n']) for c in st['comments'] if 'example' not in c)) for st in sh['stmts']])
            for sh in parsed['shapes']]


def run(ctx):
    rng = random.Random(ctx.seed * 67867967 + 16)
    kf = F.load("C16")
    n = 200 if ctx.tier == "quick" else 5000
    cases, kinds = [], []
    for i in range(n):
        # --- ignored namespaces: option on G  vs  no option on G minus the ignored predicates (class membership from G)
        g = deep_graph(rng)
        cfg = gen.gen_cfg(rng, g, presentation=False, allow_cap=False, allow_ignore=False, allow_or=True)
        cfg['report'] = 'mixed'
        cfg['disable_comments'] = False
        ns = rng.choice(NS_SETS)
        cfg_ign = dict(cfg, ignore_ns=ns)
        keep = [(s, p, o) for s, p, o in g if p == cfg['inst_prop'] or not any(direct_child(p, x) for x in ns)]
        if any(direct_child(cfg['inst_prop'], x) for x in ns):
            # the instantiation property itself is ignored: class membership must still be read from the full graph; the
            # option run then equals the run on the filtered input minus the constraints on the instantiation property
            # (empty shapes are kept in both runs, so that losing those constraints cannot cascade)
            cfg_ign = dict(cfg_ign, remove_empty=False)
            kinds.append(('ignore-instprop', len(cases)))
            cases += [(g, cfg_ign), (keep, dict(cfg, remove_empty=False))]
        else:
            kinds.append(('ignore', len(cases)))
            cases += [(g, cfg_ign), (keep, cfg)]
        # --- cap
        g2 = gen.gen_graph(rng)
        cfg2 = gen.gen_cfg(rng, g2, presentation=False, allow_cap=False, allow_ignore=False, allow_or=True)
        cfg2['report'] = 'mixed'
        cfg2['disable_comments'] = False
        sizes = gen.class_sizes(g2, cfg2['inst_prop'])
        mx = max(sizes.values() or [1])
        for k in sorted(set([1, rng.randint(1, mx), mx, mx + 1])):
            kinds.append(('cap', len(cases), k, mx))
            cases += [(g2, dict(cfg2, cap=k)), (g2, cfg2)]
    ir, dis = base.correspondence(ctx, cases)
    viol = []
    stats = {"ignore_pairs": 0, "cap_pairs": 0, "cap_reaching": 0, "deeper_predicates_kept": 0}
    nontriv = 0
    cap_cases = []
    for kd in kinds:
        if kd[0] == 'ignore':
            i = kd[1]
            (g, cfg_i), r1, r2 = cases[i], ir[i], ir[i + 1]
            stats["ignore_pairs"] += 1
            if r1[0] != 'ok' or r2[0] != 'ok':
                viol.append({"what": "implementation gave no result", "outcomes": [list(r1[:3]), list(r2[:3])], **pipeline.case_json(g, cfg_i)})
                continue
            a, b = shape_sig(r1[1]), shape_sig(r2[1])
            if a != b:
                viol.append({"what": "namespaces_to_ignore differs from deleting the ignored predicates from the input",
                             "with_option": repr(a)[:800], "on_filtered_input": repr(b)[:800], **pipeline.case_json(g, cfg_i)})
            nontriv += len(cases[i + 1][0]) < len(g)
            stats["deeper_predicates_kept"] += sum(1 for s, p, o in cases[i + 1][0] if '/deep/er/' in p or ('/deep/' in p and EX in cfg_i['ignore_ns'] and EX + 'deep/' not in cfg_i['ignore_ns']))
        elif kd[0] == 'ignore-instprop':
            i = kd[1]
            (g, cfg_i), r1, r2 = cases[i], ir[i], ir[i + 1]
            stats["ignore_instprop_pairs"] = stats.get("ignore_instprop_pairs", 0) + 1
            if r1[0] != 'ok' or r2[0] != 'ok':
                viol.append({"what": "implementation gave no result", "outcomes": [list(r1[:3]), list(r2[:3])], **pipeline.case_json(g, cfg_i)})
                continue
            strip = lambda sig: [(lab, n_, [st for st in sts if st[1] != cfg_i['inst_prop']]) for lab, n_, sts in sig]
            a, b = strip(shape_sig(r1[1])), strip(shape_sig(r2[1]))
            if a != b:
                viol.append({"what": "ignoring the namespace of the instantiation property changes more than the constraints on that property "
                                     "(class membership must still come from the full graph)",
                             "with_option": repr(a)[:800], "on_filtered_input_minus_instantiation_constraints": repr(b)[:800], **pipeline.case_json(g, cfg_i)})
        elif kd[0] == 'cap':
            i, k, mx = kd[1], kd[2], kd[3]
            (g, cfg_c), r1, r2 = cases[i], ir[i], ir[i + 1]
            stats["cap_pairs"] += 1
            if r1[0] != 'ok' or r2[0] != 'ok':
                viol.append({"what": "implementation gave no result", "outcomes": [list(r1[:3]), list(r2[:3])], **pipeline.case_json(g, cfg_c)})
                continue
            if k >= mx:
                if shape_sig(r1[1]) != shape_sig(r2[1]):
                    viol.append({"what": "a cap not smaller than every class changes the result", "cap": k, "max_class_size": mx,
                                 **pipeline.case_json(g, cfg_c)})
            else:
                stats["cap_reaching"] += 1
                nontriv += 1
            # instance counts = min(k, |class|)
            sizes = gen.class_sizes(g, cfg_c['inst_prop'])
            lm = oracle.classes_for_labels(g, cfg_c)
            for sh in r1[1]['shapes']:
                cl = lm.get(sh['label'])
                if cl and len(cl) == 1 and sh['n'] is not None and sh['n'] != min(k, sizes.get(cl[0], 0)):
                    viol.append({"what": "instance count under a cap is not min(cap, class size)", "class": cl[0], "reported": sh['n'],
                                 "cap": k, "class_size": sizes.get(cl[0], 0), **pipeline.case_json(g, cfg_c)})
            cap_cases.append((g, cfg_c))
    # the options through other deliveries than the raw string: an rdflib Graph, a file, a zip archive whose members are NOT in
    # alphabetical order (the document order the cap counts in is the order of the archive)
    import tempfile, os, zipfile, shutil, rdflib
    from shexer.shaper import Shaper
    from shexer import consts as C
    import impl, shex_text
    stats["delivery_pairs"] = 0
    tdir = tempfile.mkdtemp(prefix="verif_c16_")
    try:
        for i in range(30 if ctx.tier == "quick" else 400):
            g = [t for t in deep_graph(rng) if t[0][0] == 'I' and t[2][0] != 'B']
            if not g:
                continue
            cfg = gen.gen_cfg(rng, g, presentation=False, allow_cap=False, allow_ignore=False)
            cfg.update(report='mixed', disable_comments=False, inst_prop=RDF_TYPE)
            cfg.pop('inst_prop_spelled', None)
            kw = impl.shaper_kwargs(cfg)
            th = cfg['th'][0] / cfg['th'][1]
            def sig_of(**src):
                try:
                    return shape_sig(shex_text.parse(Shaper(**src, **kw).shex_graph(string_output=True, acceptance_threshold=th)))
                except Exception as e:
                    return "EXC %s %s" % (type(e).__name__, str(e)[:100])
            # (a) ignored namespaces, graph handed over as an rdflib Graph and as a file
            ns = rng.choice(NS_SETS)
            if not any(direct_child(RDF_TYPE, x) for x in ns):
                kw['namespaces_to_ignore'] = ns
                keep = [(s_, p_, o_) for s_, p_, o_ in g if not any(direct_child(p_, x) for x in ns)]
                rg = rdflib.Graph(); rg.parse(data=to_nt(g), format='nt')
                rk = rdflib.Graph(); rk.parse(data=to_nt(keep), format='nt')
                fp = os.path.join(tdir, "g%d.nt" % i); open(fp, "w").write(to_nt(g))
                a1 = sig_of(rdflib_graph=rg)
                a2 = sig_of(graph_file_input=fp, input_format=C.NT)
                kw['namespaces_to_ignore'] = None
                b1 = sig_of(rdflib_graph=rk)
                b2 = sig_of(raw_graph=to_nt(keep), input_format=C.NT)
                stats["delivery_pairs"] += 2
                if a1 != b1:
                    viol.append({"what": "namespaces_to_ignore with an rdflib Graph differs from deleting the ignored predicates", "ignored": ns,
                                 "with_option": repr(a1)[:500], "on_filtered_input": repr(b1)[:500], **pipeline.case_json(g, cfg)})
                if a2 != b2:
                    viol.append({"what": "namespaces_to_ignore with a graph file differs from deleting the ignored predicates", "ignored": ns,
                                 "with_option": repr(a2)[:500], "on_filtered_input": repr(b2)[:500], **pipeline.case_json(g, cfg)})
            kw['namespaces_to_ignore'] = None
            # (b) cap, graph handed over as a zip archive with members stored out of alphabetical order
            sizes = gen.class_sizes(g, RDF_TYPE)
            if sizes and max(sizes.values()) >= 2:
                lines_ = to_nt(g).strip().split("\n")
                cut = rng.randint(1, len(lines_) - 1) if len(lines_) > 1 else 1
                zp = os.path.join(tdir, "z%d.zip" % i)
                with zipfile.ZipFile(zp, "w") as z:
                    z.writestr("people_2024.nt", "\n".join(lines_[:cut]) + "\n")
                    z.writestr("people_2023.nt", "\n".join(lines_[cut:]) + "\n")
                kw['instances_cap'] = rng.randint(1, max(sizes.values()) - 1)
                c1 = sig_of(graph_file_input=zp, input_format=C.NT, compression_mode=C.ZIP)
                c2 = sig_of(raw_graph="\n".join(lines_) + "\n", input_format=C.NT)
                stats["delivery_pairs"] += 1
                if c1 != c2:
                    viol.append({"what": "instances_cap=%d on a zip archive (members in archive order) differs from the same cap on the concatenated document" % kw['instances_cap'],
                                 "zip": repr(c1)[:500], "concatenated": repr(c2)[:500], **pipeline.case_json(g, cfg)})
                kw['instances_cap'] = -1
    finally:
        shutil.rmtree(tdir, ignore_errors=True)
    # figures under a cap are exact for the first k instances: the Lean Spec on the restricted selection
    if ctx.spec_ok and cap_cases:
        sub = random.Random(ctx.seed).sample(cap_cases, min(len(cap_cases), 300 if ctx.tier == "quick" else 3000))
        kf01 = F.load("C01")
        v2, _, _, _, _, _ = c01.evaluate(ctx, sub, kf01, check_spec=True)
        for v in v2:
            v["what"] = "under instances_cap: " + v["what"]
        viol += v2
    base.fragment_s_tie(ctx, dis, stats, ['check_if_property_belongs_to_namespace_list'])
    return base.std_result(ctx, cases, viol, dis, base.known_lines(kf, set()), stats, nontriv, [],
                           "ignored namespaces: option on G vs no option on G without the predicates that are direct children of an ignored "
                           "namespace (nested namespaces in both orders, predicates one level deeper, a namespace that is a string prefix only); "
                           "cap: caps 1, random, max class size, max+1 against the uncapped run and against the Lean Spec with the selection "
                           "restricted to the first k instances; the ignore option through an rdflib Graph and a file, the cap through a zip archive with "
                           "members out of alphabetical order; non-trivial = the option really removes something", DEPS)
