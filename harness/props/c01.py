"""C01 — every reported instance count and frequency is exact.

proof : Props/C01.lean (R1: profile entries and class counts == declarative counts, for any selection)
        Props/C01b.lean (figures travel unchanged from the profile to the shapes)  [when present]
tie   : ordered correspondence of the canonical shape list (model vs implementation)
search: every figure the implementation prints is re-computed by the Lean Spec (driver `spec` mode)
"""
import random, os, json
from common import *
from props import base
import gen, pipeline, model, compare, findings as F, oracle

PROPS_MODULES = ["ShexerModel.Props.C01", "ShexerModel.Props.C01b"]
GENERATED_DEPS = ["threshold_keeps", "relax_cardinality", "generalize_cardinality", "most_general_cardinality",
                  "cardinality_representation"]


def make_cases(rng, n, schema_share=0.25):
    cases = []
    for i in range(n):
        ip = rng.choice([RDF_TYPE, RDF_TYPE, RDF_TYPE, EX + 'inst', WD_P31])
        if rng.random() < schema_share:
            g = gen.gen_schema_graph(rng, inst_prop=ip)
        else:
            g = gen.gen_graph(rng, inst_prop=ip)
        if rng.random() < 0.15:
            g = list(dict.fromkeys(gen.spice_literals(rng, g)))      # awkward but legal lexical forms: no figure depends on the text of a literal
        cases.append((g, gen.gen_cfg(rng, g, inst_prop=ip, allow_or=True)))
    return cases


def nontrivial(triples, cfg, parsed):
    """>= 2 instances in some shape and >= 1 constraint below 100 % (a comment or a relaxed card)"""
    for sh in parsed['shapes']:
        if (sh['n'] or 0) >= 2 or len(sh['stmts']) >= 2:
            if any(st['card'] in ('*', '?') or st['comments'] for st in sh['stmts']):
                return True
    return False


def evaluate(ctx, cases, kf, check_spec=True):
    """-> (violations, disagreements, reproduced finding ids, stats, distinct nontrivial, samples)"""
    ir = pipeline.run_impl(cases)
    mr = pipeline.run_model(cases) if ctx.driver_ok else [None] * len(cases)
    sp = pipeline.run_spec(cases, ir) if (ctx.spec_ok and check_spec) else [None] * len(cases)
    violations, disagreements, reproduced = [], [], set()
    stats = {"outcome": {}, "facts": 0, "shapes": 0, "statements": 0, "switches": {}, "target_mode": {}, "nonliteral_lines": 0}
    seen = set()
    nontriv = 0
    samples = []
    for i, ((g, cfg), r) in enumerate(zip(cases, ir)):
        oc = r[0] if r[0] != 'exc' else "exc:%s" % (r[1],)
        stats["outcome"][oc] = stats["outcome"].get(oc, 0) + 1
        stats["target_mode"][cfg['target_mode']] = stats["target_mode"].get(cfg['target_mode'], 0) + 1
        for k in gen.BOOL_SWITCHES:
            if cfg[k]:
                stats["switches"][k] = stats["switches"].get(k, 0) + 1
        if r[0] != 'ok':
            violations.append({"what": "implementation did not return a result", "outcome": list(r[:3]), **pipeline.case_json(g, cfg)})
            continue
        parsed = r[1]
        stats["shapes"] += len(parsed['shapes'])
        stats["statements"] += sum(len(s['stmts']) for s in parsed['shapes'])
        stats["nonliteral_lines"] += sum(1 for s in parsed['shapes'] for st in s['stmts'] if 'NONLITERAL' in st['types'])
        key = to_nt(g) + json.dumps(cfg, sort_keys=True, default=str)
        if key not in seen:
            seen.add(key)
            if nontrivial(g, cfg, parsed):
                nontriv += 1
        if len(samples) < 2 and parsed['shapes'] and len(g) <= 12:
            samples.append({"nt": to_nt(g), "cfg": {k: v for k, v in cfg.items() if v != gen.default_cfg().get(k)}, "shexc": r[2]})
        if mr[i] is not None:
            d = compare.compare(model.parse_shapes(mr[i]), parsed, cfg)
            if d:
                disagreements.append({"what": "model vs implementation", "diffs": d[:5], **pipeline.case_json(g, cfg)})
        if sp[i] is not None:
            stats["facts"] += len(sp[i])
            for b in pipeline.fact_failures(sp[i], cfg):
                fid = F.match(kf, {"fact": b, "triples": g, "cfg": cfg})
                if fid is not None:
                    reproduced.add(fid)
                else:
                    violations.append({"what": "figure differs from the specification: " + b['why'], "fact": {k: v for k, v in b.items() if k != 'siblings'},
                                       "shexc": r[2], **pipeline.case_json(g, cfg)})
    return violations, disagreements, reproduced, stats, nontriv, samples


def small_exhaustive_cases(limit):
    """all graphs with <= 3 non-typing triples over a 3-node / 2-property vocabulary, 2 classes"""
    import itertools
    nodes = [I('a'), I('b'), B('c')]
    objs = nodes + [L('1', XSD + 'integer'), L('x')]
    props = [EX + 'p', EX + 'q']
    typing = [(nodes[0], RDF_TYPE, I('C')), (nodes[1], RDF_TYPE, I('C')), (nodes[2], RDF_TYPE, I('D')), (nodes[1], RDF_TYPE, I('D'))]
    pool = [(s, p, o) for s in nodes for p in props for o in objs]
    cases = []
    for k in (1, 2, 3):
        for combo in itertools.combinations(pool, k):
            g = typing + list(combo)
            cfg = gen.default_cfg()
            cfg['inverse'] = True
            cfg['th'] = (1, 2)
            cases.append((g, cfg))
            if len(cases) >= limit:
                return cases
    return cases


def run(ctx):
    rng = random.Random(ctx.seed * 7919 + 1)
    kf = F.load("C01")
    n = 1500 if ctx.tier == "quick" else 20000
    cases = make_cases(rng, n)
    exhaustive = []
    if ctx.tier == "thorough":
        exhaustive = small_exhaustive_cases(5000)
    viol, dis, rep, stats, nontriv, samples = evaluate(ctx, cases + exhaustive, kf)
    if (dis or not ctx.build_ok or not ctx.driver_ok) and not viol and ctx.tier == "quick":
        # proof or correspondence broken: enlarge the search on the implementation
        more = make_cases(random.Random(ctx.seed + 99), 2500)
        v2, _, rep2, _, _, _ = evaluate(ctx, more, kf, check_spec=ctx.spec_ok)
        viol += v2
        rep |= rep2
    v3, d3, st3 = base.shape_map_cases(ctx, 40 if ctx.tier == "quick" else 500, "figures")
    viol += v3
    dis += d3
    stats["shape_map_cases"] = st3
    # the same statements through the streaming Turtle reader, as a document that binds one prefix label to a second namespace half-way and
    # spells the same local names before and after: every printed figure must be the one of the N-Triples run (whose figures are checked above)
    from shexer.shaper import Shaper as _Sh1
    from shexer import consts as _C1
    stats["turtle_iter_rebinding_documents"] = 0
    rng_t = random.Random(ctx.seed * 4241 + 1)
    NS1, NS2 = "http://v1.example.org/ns#", "http://v2.example.org/ns#"
    for i in range(12 if ctx.tier == "quick" else 150):
        n1, n2 = rng_t.randint(2, 4), rng_t.randint(2, 4)
        first, second = [], []
        for k in range(n1):
            first += [("<http://example.org/a%d>" % k, "a", "<http://example.org/Item>"), ("<http://example.org/a%d>" % k, "v:name", '"n%d"' % k)]
            if k % 2:
                first.append(("<http://example.org/a%d>" % k, "v:size", '"%d"^^<http://www.w3.org/2001/XMLSchema#integer>' % k))
        for k in range(n2):
            second += [("<http://example.org/b%d>" % k, "a", "<http://example.org/Item>"), ("<http://example.org/b%d>" % k, "v:name", '"m%d"' % k),
                       ("<http://example.org/b%d>" % k, "v:partOf", "<http://example.org/a0>")]
        ttl = "@prefix v: <%s> .\n" % NS1 + "".join("%s %s %s .\n" % t for t in first) + "@prefix v: <%s> .\n" % NS2 + "".join("%s %s %s .\n" % t for t in second)
        def full(t, ns):
            s_, p_, o_ = t
            p_ = "<%s>" % RDF_TYPE if p_ == "a" else "<%s%s>" % (ns, p_[2:])
            return "%s %s %s .\n" % (s_, p_, o_)
        nt_ = "".join(full(t, NS1) for t in first) + "".join(full(t, NS2) for t in second)
        kw_ = dict(all_classes_mode=True, instances_report_mode=_C1.MIXED_INSTANCES, inverse_paths=(i % 2 == 0))
        try:
            a_ = _Sh1(raw_graph=nt_, input_format=_C1.NT, **kw_).shex_graph(string_output=True)
            b_ = _Sh1(raw_graph=ttl, input_format=_C1.TURTLE_ITER, **kw_).shex_graph(string_output=True)
        except Exception as e:
            viol.append({"what": "Turtle document that re-binds a prefix: %s %s" % (type(e).__name__, str(e)[:120]), "turtle": ttl})
            continue
        stats["turtle_iter_rebinding_documents"] += 1
        if a_ != b_:
            la, lb = a_.split("\n"), b_.split("\n")
            k = next((j for j, (x, y) in enumerate(zip(la, lb)) if x != y), min(len(la), len(lb)))
            viol.append({"what": "figures of a Turtle document that re-binds a prefix half-way differ from those of the same statements in N-Triples, first at line %d: %r vs %r"
                                 % (k, la[k:k + 1], lb[k:k + 1]), "turtle": ttl, "n_triples": nt_, "from_n_triples": a_[:800], "from_turtle": b_[:800]})
    # shrink the first violations
    out_v = []
    for v in viol[:3]:
        out_v.append(v)
    known = []
    for f in kf:
        if f["id"] in rep or F.replay(f):
            known.append((f["id"], "%s %s" % (f["id"], f["summary"])))
    return {"evaluations": len(cases) + len(exhaustive), "distinct_nontrivial": nontriv,
            "rule": "random duplicate-free graphs (1-4 classes, 1-8 nodes incl. blank nodes, 0-3 classes per node, typed/plain/"
                    "language-tagged literals, links between typed nodes; 25 % schema-consistent) x random configuration (all inference "
                    "switches, thresholds on every k/n boundary, targets all/subset, cap, ignored namespaces, 3 instantiation properties, "
                    "report mode, decimals); 40 (500) shape-map selections (the family of C10); thorough adds all graphs with <= 3 extra triples over a 3-node/2-property vocabulary; "
                    "non-trivial = some shape has >= 2 instances or statements and a constraint below 100 %",
            "samples": samples, "stats": stats, "violations": out_v, "disagreements": dis, "known": known,
            "generated_deps": GENERATED_DEPS,
            "assumptions": ["IEEE-754 division: n/N >= a/b computed in floats agrees with n*b >= a*N for the class sizes generated",
                            "shape label <-> class by the mirror of build_shapes_name_for_class_uri (distinct local names)"]}


def replay(path):
    r = json.load(open(path))
    print(json.dumps(r, indent=1)[:3000])
    return 0
