"""C08 — the extracted shapes do not depend on how the graph is delivered.

proof : Props/C08.lean (the line-based readers distribute over concatenation of sources; the N-Triples and the TSV reader
        classify the same tokens the same way; every figure is invariant under any partition / order of the sources)
tie   : pipeline correspondence on the reference channel (raw N-Triples)
search: the same abstract graph delivered through every channel; shapes compared with the reference channel (labels,
        instance counts, constraint keys, every figure; chosen constraints and comments when no frequencies tie)
"""
import random, json, os, tempfile, shutil, gzip, lzma, zipfile
from common import *
import gen, pipeline, model, impl, shex_text, findings as F
from props import base
from props.c09 import evidence, chosen, has_tie, tie_explained
from shexer import consts as C

PROPS_MODULES = ["ShexerModel.Props.C08", "ShexerModel.Props.GenStrCorners", "ShexerModel.Props.GenStrLiteral", "ShexerModel.Props.GenStrNtTok", "ShexerModel.Props.GenStrTune2", "ShexerModel.Props.GenNtReader", "ShexerModel.Props.GenTsvReader"]
DEPS = ["S.remove_corners", "S.decide_literal_type"] + ["S." + x for x in ('nt_look_for_index_of_closing_quotes', 'nt_look_for_last_index_before_blank', 'nt_look_for_last_index_of_uri_token', 'nt_look_for_last_index_of_bnode_token', 'nt_look_for_last_index_of_unlabelled_number_token', 'nt_look_for_last_index_of_literal_token', 'nt_look_for_tokens', 'parse_literal', 'parse_unquoted_literal', 'tune_subj', 'tune_prop', 'tune_token', 'tsv_look_for_tokens')]
replay = base.replay


def gen_c08_graph(rng, bnodes):
    g = gen.gen_schema_graph(rng) if rng.random() < 0.4 else gen.gen_graph(rng, bnodes=bnodes)
    out = []
    for s, p, o in g:
        if o[0] == 'L' and o[3] is None:
            # well-typed lexical forms (JSON-LD turns ill-typed numbers into other datatypes)
            k = sum(map(ord, o[1])) % 28 + 1
            lex = {XSD + 'integer': str(k), XSD + 'int': str(k), XSD + 'float': "%d.5" % k, XSD + 'decimal': "%d.25" % k, XSD + 'double': "%d.5E0" % k,
                   XSD + 'date': "2020-01-%02d" % k, XSD + 'dateTime': "2020-01-%02dT00:00:00" % k, XSD + 'boolean': "true"}.get(o[2], o[1])
            o = ('L', lex, o[2], None)
        out.append((s, p, o))
    if not bnodes:
        out = [t for t in out if t[0][0] != 'B' and t[2][0] != 'B']
    # plain literals whose lexical form looks like a suffix: every reader must still say xsd:string
    subs = [s_ for s_, _, _ in out if s_[0] == 'I']
    if subs and rng.random() < 0.5:
        for lex in rng.sample(['say \\"hi\\"@home', 'a^^b', 'x\\"^^<http://e.org/dt>', 'mail@host', 'see xsd:int', '# no comment', 'ends with \\\\'], 3):
            out.append((rng.choice(subs), EX + 'adv', L(lex)))
    # typed and tagged literals whose text contains '>' , '<' or an escaped quote: the end of the literal token is where its suffix says
    if subs and rng.random() < 0.5:
        out.append((rng.choice(subs), EX + 'body', L('a -> b <i>x</i>', XSD + 'token')))
        out.append((rng.choice(subs), EX + 'said', L('she said \\"hi\\" twice', lang='en')))
    # a datatype of the example namespace (so that the channels that write IRIs relative to @base have a relative datatype to resolve)
    if subs and rng.random() < 0.5:
        out.append((rng.choice(subs), EX + 'area', L('20', EX + 'units/squareMetre')))
    # language-tagged / typed literals containing characters that str.splitlines() (but no line-based reader) treats as line ends:
    # a channel that cuts the statement there loses the tag (U+0085 and U+2028 are legal in XML 1.0, JSON and Turtle strings)
    if subs and rng.random() < 0.5:
        for ch in rng.sample(['\x85', '\u2028', '\u2029'], 2):
            out.append((rng.choice(subs), EX + 'sep', L('first' + ch + 'second', lang='en') if rng.random() < 0.6 else L('2020' + ch + '01', XSD + 'date')))
    return out


def to_tsv(g):
    lines = []
    for ln in to_nt(g).strip().split("\n"):
        ln = ln.rstrip()
        assert ln.endswith(" .")
        ln = ln[:-2]
        s, rest = ln.split(" ", 1)
        p, o = rest.split(" ", 1)
        lines.append("\t".join((s, p, o)))
    return "\n".join(lines) + "\n"


def split(rng, items, k):
    parts = [[] for _ in range(k)]
    for it in items:
        parts[rng.randrange(k)].append(it)
    return parts


def write(path, text, compression=None):
    if compression == 'gz':
        with gzip.open(path, "wt", encoding="utf-8") as f:
            f.write(text)
    elif compression == 'xz':
        with lzma.open(path, "wt", encoding="utf-8") as f:
            f.write(text)
    else:
        with open(path, "w", encoding="utf-8") as f:
            f.write(text)


def channels(rng, g, tmpdir, tag, bnodes):
    """-> list of (name, kwargs, reads_bnodes_stably)"""
    import rdflib
    nt = to_nt(g)
    rg = rdflib.Graph()
    rg.parse(data=nt, format='nt')
    out = []
    p = lambda name: os.path.join(tmpdir, "%s_%s" % (tag, name))
    def ser(fmt):
        return rg.serialize(format=fmt)
    # one file per format
    for name, fmt, const, text, stable in [('nt_file', 'nt', C.NT, nt, True), ('tsv_file', 'tsv', C.TSV_SPO, to_tsv(g), True),
                                           ('turtle_iter_file', 'ttl', C.TURTLE_ITER, nt, True), ('turtle_file', 'ttl', C.TURTLE, ser('turtle'), False),
                                           ('xml_file', 'xml', C.RDF_XML, ser('xml'), False), ('jsonld_file', 'json', C.JSON_LD, ser('json-ld'), False),
                                           ('n3_file', 'n3', C.N3, ser('n3'), False)]:
        path = p(name + "." + fmt)
        write(path, text)
        out.append((name, dict(graph_file_input=path, input_format=const), stable))
    out.append(('turtle_iter_raw', dict(raw_graph=nt, input_format=C.TURTLE_ITER), True))
    # the same statements with every IRI of the example namespace - nodes, predicates and datatypes - written relative to @base
    rel = "@base <%s> .\n" % EX + nt.replace("<" + EX, "<")
    out.append(('turtle_iter_base_raw', dict(raw_graph=rel, input_format=C.TURTLE_ITER), True))
    path = p("base.ttl")
    write(path, rel)
    out.append(('turtle_iter_base_file', dict(graph_file_input=path, input_format=C.TURTLE_ITER), True))
    out.append(('turtle_base_raw', dict(raw_graph=rel, input_format=C.TURTLE), False))
    out.append(('turtle_raw', dict(raw_graph=ser('turtle'), input_format=C.TURTLE), False))
    out.append(('xml_raw', dict(raw_graph=ser('xml'), input_format=C.RDF_XML), False))
    out.append(('jsonld_raw', dict(raw_graph=ser('json-ld'), input_format=C.JSON_LD), False))
    out.append(('rdflib_graph', dict(rdflib_graph=rg), True))
    path = p("url.ttl")
    write(path, ser('turtle'))
    out.append(('url', dict(url_graph_input="file://" + path, input_format=C.TURTLE), False))
    # several files: an arbitrary partition of the statements
    lines = nt.strip().split("\n")
    for name, const, conv in [('nt_files', C.NT, lambda ls: "\n".join(ls) + "\n"), ('tsv_files', C.TSV_SPO, None), ('turtle_iter_files', C.TURTLE_ITER, lambda ls: "\n".join(ls) + "\n")]:
        k = rng.randint(2, 4)
        idx = split(rng, list(range(len(lines))), k)
        files = []
        for j, part in enumerate(idx):
            path = p("%s_%d.%s" % (name, j, 'tsv' if const == C.TSV_SPO else 'nt'))
            if const == C.TSV_SPO:
                write(path, to_tsv([g[i] for i in part]) if part else "")
            else:
                write(path, conv([lines[i] for i in part]) if part else "")
            files.append(path)
        out.append((name, dict(graph_list_of_files_input=files, input_format=const), True))
    # rdflib-parsed list of files
    k = rng.randint(2, 3)
    idx = split(rng, list(range(len(g))), k)
    files = []
    for j, part in enumerate(idx):
        sub = rdflib.Graph()
        sub.parse(data=to_nt([g[i] for i in part]) if part else "", format='nt')
        path = p("ttl_files_%d.ttl" % j)
        write(path, sub.serialize(format='turtle'))
        files.append(path)
    out.append(('turtle_files', dict(graph_list_of_files_input=files, input_format=C.TURTLE), False))
    # compression
    for comp, const in (('gz', C.GZ), ('xz', C.XZ)):
        path = p("c.nt." + comp)
        write(path, nt, comp)
        out.append(('nt_' + comp, dict(graph_file_input=path, input_format=C.NT, compression_mode=const), True))
        path = p("c.ttl." + comp)
        write(path, ser('turtle'), comp)
        out.append(('turtle_' + comp, dict(graph_file_input=path, input_format=C.TURTLE, compression_mode=const), False))
        k = rng.randint(2, 3)
        idx = split(rng, list(range(len(lines))), k)
        files = []
        for j, part in enumerate(idx):
            path = p("cl_%d.nt.%s" % (j, comp))
            write(path, "\n".join(lines[i] for i in part) + "\n" if part else "", comp)
            files.append(path)
        out.append(('nt_files_' + comp, dict(graph_list_of_files_input=files, input_format=C.NT, compression_mode=const), True))
    # zip: flat members, members inside a folder, two archives
    k = rng.randint(1, 4)
    idx = split(rng, list(range(len(lines))), k)
    zpath = p("flat.zip")
    with zipfile.ZipFile(zpath, "w") as z:
        for j, part in enumerate(idx):
            z.writestr("part%d.nt" % j, "\n".join(lines[i] for i in part) + "\n" if part else "")
    out.append(('zip_flat', dict(graph_file_input=zpath, input_format=C.NT, compression_mode=C.ZIP), True))
    zpath = p("nested.zip")
    with zipfile.ZipFile(zpath, "w") as z:
        for j, part in enumerate(idx):
            z.writestr(("graph/part%d.nt" if j % 2 else "part%d.nt") % j, "\n".join(lines[i] for i in part) + "\n" if part else "")
    out.append(('zip_nested', dict(graph_file_input=zpath, input_format=C.NT, compression_mode=C.ZIP), True))
    zpath = p("ttl.zip")
    with zipfile.ZipFile(zpath, "w") as z:
        z.writestr("g.ttl", ser('turtle'))
    out.append(('zip_turtle', dict(graph_file_input=zpath, input_format=C.TURTLE, compression_mode=C.ZIP), False))
    half = len(lines) // 2
    zs = []
    for j, part in enumerate((lines[:half], lines[half:])):
        zpath = p("multi%d.zip" % j)
        with zipfile.ZipFile(zpath, "w") as z:
            z.writestr("m%d.nt" % j, "\n".join(part) + "\n" if part else "")
        zs.append(zpath)
    out.append(('zip_list', dict(graph_list_of_files_input=zs, input_format=C.NT, compression_mode=C.ZIP), True))
    # several archives whose members carry the SAME name (each chunk zipped as export.*), NT and TSV
    k3 = rng.randint(2, 3)
    idx3 = split(rng, list(range(len(g))), k3)
    for kind, const in (('nt', C.NT), ('tsv', C.TSV_SPO)):
        zs2 = []
        for j, part in enumerate(idx3):
            zpath = p("same_%s_%d.zip" % (kind, j))
            sub = [g[i] for i in part]
            with zipfile.ZipFile(zpath, "w") as z:
                z.writestr("export." + kind, (to_nt(sub) if kind == 'nt' else to_tsv(sub)) if sub else "")
            zs2.append(zpath)
        out.append(('zip_list_same_names_' + kind, dict(graph_list_of_files_input=zs2, input_format=const, compression_mode=C.ZIP), True))
    return out


def run(ctx):
    from shexer.shaper import Shaper
    rng = random.Random(ctx.seed * 8000051 + 8)
    kf = F.load("C08")
    hit = set()
    viol, dis = [], []
    n = 25 if ctx.tier == "quick" else 300
    stats = {"graphs": n, "with_bnodes": 0, "channels": {}, "comparisons": 0, "comparisons_without_tie": 0, "channel_errors": {}}
    tmpdir = tempfile.mkdtemp(prefix="verif_c08_")
    cases = []
    try:
        for i in range(n):
            bn = rng.random() < 0.3
            stats["with_bnodes"] += bn
            g = gen_c08_graph(rng, bn)
            if not g:
                continue
            cfg = gen.gen_cfg(rng, g, presentation=False, allow_cap=False)
            cfg['report'] = 'mixed'
            cfg['disable_comments'] = False
            cfg['disable_exact'] = False
            cases.append((g, cfg))
            kw = impl.shaper_kwargs(cfg)
            th = cfg['th'][0] / cfg['th'][1]
            try:
                ref_text = Shaper(raw_graph=to_nt(g), input_format=C.NT, **kw).shex_graph(string_output=True, acceptance_threshold=th)
                ref = shex_text.parse(ref_text)
            except Exception as e:
                viol.append({"what": "reference channel failed: %s %s" % (type(e).__name__, str(e)[:100]), **pipeline.case_json(g, cfg)})
                continue
            ev0, ch0, tie0 = evidence(ref), chosen(ref), has_tie(ref)
            hdr0 = {lab: v[0] for lab, v in ev0.items()}
            keys0 = {sh['label']: set(base.shape_keys(sh, cfg)) for sh in ref['shapes']}
            # every fourth graph is written to the SAME paths / archive member names as the graph before it: what a channel returns must be
            # the content the files have now, not what an earlier extraction of this process read there
            tag = "g%d" % (i - 1 if i % 4 == 0 and i > 0 else i)
            stats["graphs_rewritten_in_place"] = stats.get("graphs_rewritten_in_place", 0) + (i % 4 == 0 and i > 0)
            for name, ckw, stable in channels(rng, g, tmpdir, tag, bn):
                stats["channels"][name] = stats["channels"].get(name, 0) + 1
                kind = "rdflib" if not stable or name == 'rdflib_graph' else "line"
                try:
                    kw2 = dict(kw)
                    kw2['namespaces_dict'] = dict(kw['namespaces_dict'])
                    text = Shaper(**ckw, **kw2).shex_graph(string_output=True, acceptance_threshold=th)
                    got = shex_text.parse(text)
                except Exception as e:
                    stats["channel_errors"][name] = stats["channel_errors"].get(name, 0) + 1
                    obs = {"kind": "delivery", "channel": name, "exc": type(e).__name__, "msg": str(e)[:160], "bnodes": bn, "delivery": kind, "error": True}
                    fid = F.match(kf, obs)
                    if fid:
                        hit.add(fid)
                    else:
                        viol.append({"what": "channel %s failed: %s %s" % (name, type(e).__name__, str(e)[:120]), "channel_kwargs": {k: str(v)[:80] for k, v in ckw.items()},
                                     **pipeline.case_json(g, cfg)})
                    continue
                stats["comparisons"] += 1
                ev, ch = evidence(got), chosen(got)
                tie = tie0 or has_tie(got)
                hdr = {lab: v[0] for lab, v in ev.items()}
                keys = {sh['label']: set(base.shape_keys(sh, cfg)) for sh in got['shapes']}
                why = None
                if hdr != hdr0:
                    why = "shape labels / instance counts differ: %s vs %s" % (repr(hdr0)[:200], repr(hdr)[:200])
                elif keys != keys0:
                    lab = next(l for l in keys0 if keys.get(l) != keys0[l])
                    why = "constraint keys of %s differ: %s" % (lab, sorted(map(repr, keys0[lab] ^ keys[lab]))[:4])
                else:
                    for lab in ev:
                        f0 = {k[:4]: k[4] for k in ev0[lab][1]}
                        for k in ev[lab][1]:
                            if k[:4] in f0 and f0[k[:4]] != k[4] and k[2] != 'NONLITERAL':
                                why = "figure of %s %s differs: %s vs %s" % (lab, k[:4], f0[k[:4]], k[4])
                    if why is None and not tie:
                        stats["comparisons_without_tie"] += 1
                        if {l: v[1] for l, v in ev.items()} != {l: v[1] for l, v in ev0.items()}:
                            if not tie_explained(ev0, ev):
                                why = "sets of printed facts (constraints and comments) differ"
                            else:
                                stats["hidden_ties"] = stats.get("hidden_ties", 0) + 1
                        elif ch != ch0:
                            why = "chosen constraints differ"
                if why:
                    obs = {"kind": "delivery", "channel": name, "bnodes": bn, "delivery": kind, "why": why}
                    fid = F.match(kf, obs)
                    if not fid and why.startswith("constraint keys"):
                        diff = [k for l in keys0 for k in keys0[l] ^ keys.get(l, set())]
                        expected = len(gen.classes_of(g, cfg['inst_prop']) if cfg['target_mode'] == 'all' else cfg['targets'])
                        fid = F.match(kf, {"kind": "order_dependent_keys", "cfg": cfg, "keys": diff,
                                           "a_shape_was_removed": len(ref['shapes']) < expected or len(got['shapes']) < expected})
                    if fid:
                        hit.add(fid)
                    else:
                        viol.append({"what": "channel %s vs raw N-Triples: %s" % (name, why), "channel_kwargs": {k: str(v)[:80] for k, v in ckw.items()},
                                     "reference": ref_text[:1500], "got": text[:1500], **pipeline.case_json(g, cfg)})
        # a big document (over a megabyte, so that it crosses many internal block boundaries of any buffered reader) whose IRIs are mostly
        # multi-byte characters, through the line-based channels: compressed, archived, split
        from shexer.consts import TSV_SPO
        nbig = 3600 if ctx.tier == "quick" else 9000
        names = ["東京都" * 7 + "ñ%d" % k for k in range(3)]
        big = []
        for k in range(nbig):
            inst = EX + "ñandú" * 4 + "%d" % k
            if k % 3 == 0:
                big.append((('I', inst), RDF_TYPE, ('I', EX + "Cañón")))
            big.append((('I', inst), EX + names[k % 3], ('L', "v%d" % (k % 5), XSD + 'string', None) if k % 2 else ('I', EX + "東" * 9 + "%d" % (k % 7))))
        try:
            big_nt = to_nt(big)
            stats["big_document_bytes"] = len(big_nt.encode("utf-8"))
            bkw = dict(all_classes_mode=True)
            ref_text = Shaper(raw_graph=big_nt, input_format=C.NT, **bkw).shex_graph(string_output=True)
            blines = big_nt.strip().split("\n")
            third = len(blines) // 3
            bch = []
            for comp, const in (('gz', C.GZ), ('xz', C.XZ)):
                path = os.path.join(tmpdir, "big.nt." + comp)
                write(path, big_nt, comp)
                bch.append(('big_nt_' + comp, dict(graph_file_input=path, input_format=C.NT, compression_mode=const)))
                path = os.path.join(tmpdir, "big.ttl." + comp)
                write(path, big_nt, comp)
                bch.append(('big_turtle_iter_' + comp, dict(graph_file_input=path, input_format=C.TURTLE_ITER, compression_mode=const)))
                path = os.path.join(tmpdir, "big.tsv." + comp)
                write(path, to_tsv(big), comp)
                bch.append(('big_tsv_' + comp, dict(graph_file_input=path, input_format=TSV_SPO, compression_mode=const)))
                files = []
                for j in range(3):
                    path = os.path.join(tmpdir, "big_%d.nt.%s" % (j, comp))
                    write(path, "\n".join(blines[j * third:(j + 1) * third if j < 2 else len(blines)]) + "\n", comp)
                    files.append(path)
                bch.append(('big_nt_files_' + comp, dict(graph_list_of_files_input=files, input_format=C.NT, compression_mode=const)))
            path = os.path.join(tmpdir, "big.nt")
            write(path, big_nt)
            bch.append(('big_nt_file', dict(graph_file_input=path, input_format=C.NT)))
            zpath = os.path.join(tmpdir, "big.zip")
            with zipfile.ZipFile(zpath, "w", zipfile.ZIP_DEFLATED) as z:
                z.writestr("a.nt", "\n".join(blines[:third]) + "\n")
                z.writestr("b.nt", "\n".join(blines[third:]) + "\n")
            bch.append(('big_zip', dict(graph_file_input=zpath, input_format=C.NT, compression_mode=C.ZIP)))
            for name, ckw in bch:
                stats["channels"][name] = stats["channels"].get(name, 0) + 1
                try:
                    text = Shaper(**ckw, **bkw).shex_graph(string_output=True)
                except Exception as e:
                    viol.append({"what": "channel %s (document of %d bytes, IRIs of multi-byte characters) failed: %s %s" % (name, stats["big_document_bytes"], type(e).__name__, str(e)[:120]),
                                 "big_document": {"instances": nbig}, "channel_kwargs": {k: str(v)[:80] for k, v in ckw.items()}})
                    continue
                stats["comparisons"] += 1
                if text != ref_text:
                    a, b = ref_text.split("\n"), text.split("\n")
                    first = next((k for k, (x, y) in enumerate(zip(a, b)) if x != y), min(len(a), len(b)))
                    viol.append({"what": "channel %s vs raw N-Triples on a document of %d bytes whose IRIs are mostly multi-byte characters: the schemas differ, first at line %d: %r vs %r"
                                         % (name, stats["big_document_bytes"], first, a[first:first + 1], b[first:first + 1]),
                                 "big_document": {"instances": nbig}, "channel_kwargs": {k: str(v)[:80] for k, v in ckw.items()},
                                 "reference": ref_text[:1200], "got": text[:1200]})
        except Exception as e:
            viol.append({"what": "big-document family: reference run failed: %s %s" % (type(e).__name__, str(e)[:120])})
    finally:
        shutil.rmtree(tmpdir, ignore_errors=True)
    # the TSV reader, line by line, against its model
    if ctx.driver_ok:
        from shexer.io.graph.yielder.tsv_nt_triples_yielder import TsvNtTriplesYielder
        tlines = []
        for g, cfg in cases:
            tlines += [ln for ln in to_tsv(g).split("\n") if ln]
        tlines = tlines[:4000]
        mres = model.run_driver(["NT\t" + ln.replace("\t", "\\t") for ln in tlines] + ["RUN\ttsvlines\tall"]).get("all", [])
        tdir = tempfile.mkdtemp(prefix="verif_c08t_")
        try:
            for ln, ml in zip(tlines, mres):
                path = os.path.join(tdir, "l.tsv")
                write(path, ln + "\n")
                y = TsvNtTriplesYielder(source_file=path)
                try:
                    ts = list(y.yield_triples())
                    if len(ts) == 1:
                        s_, p_, o_ = ts[0]
                        so = (type(s_).__name__, str(s_))
                        oo = ('Literal', o_.elem_type) if type(o_).__name__ == 'Literal' else (type(o_).__name__, str(o_))
                        got = "OK\t%s\t%s\t%s\t%s\t%s" % (so[0], so[1], str(p_), oo[0], oo[1])
                    else:
                        got = "DROPPED"
                except Exception:
                    got = "EXC"
                if got != ml:
                    dis.append({"what": "Tsv.parseLine (model) vs TsvNtTriplesYielder", "line": ln, "model": ml, "impl": got})
                    if len(dis) > 10:
                        break
            stats["tsv_lines_compared"] = len(mres)
        finally:
            shutil.rmtree(tdir, ignore_errors=True)
    ir, d2 = base.correspondence(ctx, cases[:40])
    dis += d2
    base.fragment_s_tie(ctx, dis, stats, ['remove_corners', 'decide_literal_type', 'nt_look_for_index_of_closing_quotes', 'nt_look_for_last_index_before_blank', 'nt_look_for_last_index_of_uri_token', 'nt_look_for_last_index_of_bnode_token', 'nt_look_for_last_index_of_unlabelled_number_token', 'nt_look_for_last_index_of_literal_token', 'nt_look_for_tokens', 'parse_literal', 'parse_unquoted_literal', 'tune_subj', 'tune_prop', 'tune_token', 'tsv_look_for_tokens'])
    return base.std_result(ctx, cases, viol, dis, base.known_lines(kf, hit), stats, stats["comparisons_without_tie"], [],
                           "schema-consistent and general graphs (30 %% with blank nodes; plain / typed / language-tagged literals) x %d delivery channels "
                           "(NT / TSV / TURTLE / TURTLE_ITER / RDF-XML / JSON-LD / N3 as file and raw string, rdflib Graph, file:// URL, lists of 2-4 files "
                           "with an arbitrary partition of the statements, gz / xz, zip with flat and nested members, lists of zips), each compared with "
                           "the raw N-Triples run" % len(stats["channels"]), DEPS)
