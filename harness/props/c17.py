"""C17 — IRI patterns and examples come from the data.

proof : Props/C17.lean
tie   : MinIri.stem / shapeExample / constraintExample (model) vs the stems and examples in the emitted ShExC and SHACL
search: the stem and the examples of the implementation checked directly against the instance IRIs and the triples
"""
import random, json, re
from common import *
import gen, pipeline, model, impl, shex_text, shacl_text, findings as F, oracle
from props import base
from shexer import consts as C

PROPS_MODULES = ["ShexerModel.Props.C17", "ShexerModel.Props.GenStrLcp", "ShexerModel.Props.GenStrSuitable"]
DEPS = ["S.longest_common_prefix", "S.determine_suitable_iri_pattern"]
replay = base.replay
SEPS = ":/#"

NAMESPACES = ["http://example.org/", "http://example.org/people/", "http://example.org/people/staff#", "https://data.example.com/id/",
              "https://a.org/", "https://b.org/", "http://x.io/", "urn:isbn:", "http://example.org/p",
              # hosts that share leading characters (the common prefix ends inside the host: cutting back leaves the bare scheme), one-letter scheme
              "http://example.com/", "https://database.example.com/", "https://data.example.org/", "x:", "x:it",
              # the argument space of _determine_suitable_iri_pattern itself: stems around the length limits 3 and 9 and the http test
              "a:", "ab:", "urn:", "http:x/", "httpx://h/", "https://a", "http://a/", "ht://", "x#"]


def gen_iri_graph(rng):
    """instance IRIs drawn from 1-3 namespaces with shared and unshared path segments"""
    nss = rng.sample(NAMESPACES, rng.randint(1, 3))
    ncls = rng.randint(1, 3)
    g = []
    nodes = []
    for i in range(rng.randint(2, 7)):
        n = ('I', rng.choice(nss) + rng.choice(["it", "item", "x", "a/b", "q-"]) + str(rng.randint(0, 30)))
        if n not in nodes:
            nodes.append(n)
    # an instance IRI that is a proper prefix of other instance IRIs (a document and its versions / fragments): the common-prefix fold
    # must shrink to the short one whatever the order
    if rng.random() < 0.3:
        basis = rng.choice(nodes)[1]
        for ext in rng.sample(["/v1", "/v2", "#frag", "0", ":x"], rng.randint(1, 3)):
            if ('I', basis + ext) not in nodes:
                nodes.append(('I', basis + ext))
    for n in nodes:
        for c in rng.sample(range(ncls), rng.randint(1, ncls)):
            g.append((n, RDF_TYPE, I('C%d' % c)))
        for pi in range(rng.randint(0, 3)):
            r = rng.random()
            o = L(rng.choice(['M\u00e1laga', 'na\u00efve', '\u00e9t\u00e9 2', '\u6771\u4eac']) if rng.random() < 0.25 else 'v%d' % rng.randint(0, 5), rng.choice(gen.DTS[:3])) if r < 0.5 else rng.choice(nodes) if r < 0.85 else I('ext%d' % rng.randint(0, 3))
            g.append((n, EX + 'p%d' % pi, o))
    if rng.random() < 0.3:
        # incoming links of one property from blank nodes AND from IRIs without a class (with inverse_paths they merge into one NONLITERAL
        # constraint, whose example must still be an incoming value), next to outgoing values of the same property
        for n in rng.sample(nodes, rng.randint(1, len(nodes))):
            g.append((B('citer%d' % rng.randint(0, 2)), EX + 'cites', n))
            g.append((I('extciter%d' % rng.randint(0, 2)), EX + 'cites', n))
            if rng.random() < 0.5:
                g.append((n, EX + 'cites', I('other%d' % rng.randint(0, 2))))
    g = list(dict.fromkeys(g))
    rng.shuffle(g)
    return g


def longest_stem(iris):
    if not iris:
        return None
    pre = iris[0]
    for x in iris[1:]:
        k = 0
        while k < min(len(pre), len(x)) and pre[k] == x[k]:
            k += 1
        pre = pre[:k]
    idx = max((pre.rfind(c) for c in SEPS), default=-1)
    if idx < 0:
        return None
    cand = pre[:idx + 1]
    if len(cand) < 3 or cand in ("http://", "https://") or (cand.startswith("http") and len(cand) < 9):
        return None
    return cand


def canon_example(text, prefixes):
    t = text.strip()
    if t.startswith('<') and t.endswith('>'):
        return t[1:-1]
    if t.startswith('"') and t.endswith('"'):
        return t[1:-1]
    if ':' in t:
        pre, loc = t.split(':', 1)
        if pre in prefixes:
            return prefixes[pre] + loc
    return t


def run(ctx):
    rng = random.Random(ctx.seed * 198491317 + 17)
    kf = F.load("C17")
    n = 300 if ctx.tier == "quick" else 6000
    cases = []
    for i in range(n):
        g = gen_iri_graph(rng)
        cfg = gen.gen_cfg(rng, g, presentation=False, allow_cap=False, allow_ignore=False)
        cfg['report'] = 'mixed'
        cfg['disable_comments'] = False
        cfg['detect_min_iri'] = rng.random() < 0.8
        cfg['examples'] = rng.choice([None, 'shape', 'cons', 'all'])
        cfg['th'] = (0, 1) if rng.random() < 0.7 else cfg['th']
        if rng.random() < 0.5:
            # the namespaces of the instances / values bound to prefixes that change from case to case (one process runs them all): the same
            # namespace under another prefix, the same prefix for another namespace - an example must be read with the PREFIX lines of its own document
            used = sorted({ns for t in g for x in (t[0], t[2]) if x[0] == 'I' for ns in NAMESPACES if x[1].startswith(ns) and ns[-1] in '/#'})
            rng.shuffle(used)
            nsd = dict(cfg['ns_dict'])
            for k_, ns in enumerate(used[:rng.randint(1, 3)]):
                if ns not in nsd:
                    nsd[ns] = rng.choice(['d', 'dat', 'n%d' % k_, 'v'])
            if len(set(nsd.values())) == len(nsd):
                cfg['ns_dict'] = nsd
        cases.append((g, cfg))
    ir = pipeline.run_impl(cases)
    viol, dis = [], []
    hit = set()
    stats = {"stems_printed": 0, "stems_absent": 0, "shape_examples": 0, "constraint_examples": 0, "examples_mode": {}, "shacl_patterns": 0}
    nontriv = 0
    lines = []
    for i, (g, cfg) in enumerate(cases):
        lines += model.case_lines(g, cfg, 'miniri', "m%d" % i)
    mres = model.run_driver(lines) if ctx.driver_ok else {}
    # neither option changes any constraint: compare with the plain run
    plain = pipeline.run_impl([(g, dict(cfg, detect_min_iri=False, examples=None)) for g, cfg in cases[: len(cases) // 3]])
    from shexer.shaper import Shaper
    for i, ((g, cfg), r) in enumerate(zip(cases, ir)):
        stats["examples_mode"][str(cfg['examples'])] = stats["examples_mode"].get(str(cfg['examples']), 0) + 1
        if r[0] != 'ok':
            viol.append({"what": "implementation gave no result", "outcome": list(r[:3]), **pipeline.case_json(g, cfg)})
            continue
        parsed, text = r[1], r[2]
        prefixes = dict(parsed['prefixes'])
        sel = oracle.selection(g, cfg)
        lm = oracle.classes_for_labels(g, cfg)
        if i < len(plain) and plain[i][0] == 'ok':
            a = [(sh['label'], [(st['inv'], st['prop'], tuple(st['types']), st['card'], st['n']) for st in sh['stmts']]) for sh in parsed['shapes']]
            b = [(sh['label'], [(st['inv'], st['prop'], tuple(st['types']), st['card'], st['n']) for st in sh['stmts']]) for sh in plain[i][1]['shapes']]
            if a != b:
                viol.append({"what": "detect_minimal_iri / examples_mode changed a constraint", **pipeline.case_json(g, cfg)})
        mshape = {}
        cur = None
        for ln in mres.get("m%d" % i, []):
            f = ln.split("\t")
            if f[0] == 'MI':
                cur = f[1]
                mshape[cur] = {'stem': None if f[2] == '-' else f[2], 'example': None if f[3] == '-' else f[3], 'ce': []}
            elif f[0] == 'CE':
                mshape[cur]['ce'].append((f[1] == 'I', f[2], None if f[3] == '-' else int(f[3])))
        for sh in parsed['shapes']:
            cl = lm.get(sh['label'])
            if not cl or len(cl) != 1:
                continue
            cls = cl[0]
            insts = [k for k, v in sel.items() if cls in v]
            # ---- stem
            if cfg['detect_min_iri']:
                exp = longest_stem(insts)
                got = sh['stem']
                stats["stems_printed" if got else "stems_absent"] += 1
                nontriv += bool(got) and len(insts) >= 2
                if got != exp:
                    viol.append({"what": "stem is not the longest separator-terminated common prefix of the instance IRIs (or violates the length rules)",
                                 "shape": sh['label'], "printed": got, "expected": exp, "instances": insts, **pipeline.case_json(g, cfg)})
            elif sh['stem']:
                viol.append({"what": "a stem is printed although detect_minimal_iri is off", "shape": sh['label'], **pipeline.case_json(g, cfg)})
            # ---- shape example
            if cfg['examples'] in ('shape', 'all'):
                ex = sh['example']
                stats["shape_examples"] += ex is not None
                if (ex is None and insts) or (ex is not None and canon_example(ex, prefixes) not in insts):
                    viol.append({"what": "shape example is not an instance of the shape", "shape": sh['label'], "example": ex, "instances": insts,
                                 **pipeline.case_json(g, cfg)})
            elif sh['example'] is not None:
                viol.append({"what": "a shape example is printed although examples_mode does not ask for it", "shape": sh['label'], **pipeline.case_json(g, cfg)})
            # ---- constraint examples
            for st in sh['stmts']:
                exs = [c['example'] for c in st['comments'] if 'example' in c]
                if cfg['examples'] in ('cons', 'all') and st['prop'] != cfg['inst_prop']:
                    if len(exs) != 1:
                        viol.append({"what": "constraint carries %d examples instead of one" % len(exs), "shape": sh['label'], "prop": st['prop'],
                                     **pipeline.case_json(g, cfg)})
                        continue
                    stats["constraint_examples"] += 1
                    val = canon_example(exs[0], prefixes)
                    if st['inv']:
                        vals = [s[1] for s, p, o in g if p == st['prop'] and o[0] in 'IB' and o[1] in insts]
                    else:
                        vals = [o[1] for s, p, o in g if p == st['prop'] and s[1] in insts]
                    if val not in vals and exs[0].startswith('"') and ':' in val and val.split(':', 1)[0] in prefixes:
                        exp_iri = prefixes[val.split(':', 1)[0]] + val.split(':', 1)[1]
                        fid = F.match(kf, {"kind": "example_quoted_prefixed", "expanded": exp_iri, "values": vals, "inverse_paths": cfg['inverse']})
                        if fid:
                            hit.add(fid)
                            continue
                    if val not in vals:
                        viol.append({"what": "constraint example is not a value of that property on an instance of the shape", "shape": sh['label'],
                                     "prop": st['prop'], "inverse": st['inv'], "example": exs[0], "values": vals[:8], **pipeline.case_json(g, cfg)})
                elif exs:
                    viol.append({"what": "unexpected constraint example", "shape": sh['label'], "prop": st['prop'], **pipeline.case_json(g, cfg)})
            # ---- correspondence with the model
            m = mshape.get('%<' + sh['label'] + '>')
            if mres and m is not None:
                if cfg['detect_min_iri'] and m['stem'] != sh['stem']:
                    dis.append({"what": "MinIri.stem (model) vs implementation", "shape": sh['label'], "model": m['stem'], "impl": sh['stem'], **pipeline.case_json(g, cfg)})
                if cfg['examples'] in ('shape', 'all') and sh['example'] is not None and m['example'] != canon_example(sh['example'], prefixes):
                    dis.append({"what": "shape example: model vs implementation", "shape": sh['label'], "model": m['example'], "impl": sh['example'],
                                **pipeline.case_json(g, cfg)})
                if cfg['examples'] in ('cons', 'all'):
                    mce = sorted(m['ce'], key=lambda x: (x[0], x[1]))
                    for st in sh['stmts']:
                        exs = [c['example'] for c in st['comments'] if 'example' in c]
                        if st['prop'] == cfg['inst_prop'] or not exs:
                            continue
                        idx = next((k for (inv, p, k) in mce if inv == st['inv'] and p == st['prop']), None)
                        if idx is None:
                            dis.append({"what": "constraint example: model has none", "shape": sh['label'], "prop": st['prop'], **pipeline.case_json(g, cfg)})
                            continue
                        t = g[idx]
                        exp = (t[0] if st['inv'] else t[2])[1]
                        got = canon_example(exs[0], prefixes)
                        if exs[0].startswith('"') and ':' in got and got.split(':', 1)[0] in prefixes and exp.startswith('http'):
                            got = prefixes[got.split(':', 1)[0]] + got.split(':', 1)[1]      # F-C17-1 rendering
                        if got != exp:
                            dis.append({"what": "constraint example: model vs implementation", "shape": sh['label'], "prop": st['prop'],
                                        "model": exp, "impl": exs[0], **pipeline.case_json(g, cfg)})
        # SHACL sh:pattern
        if cfg['detect_min_iri'] and i % 4 == 0:
            try:
                t2 = Shaper(raw_graph=to_nt(g), input_format=C.NT, **impl.shaper_kwargs(cfg)).shex_graph(
                    string_output=True, acceptance_threshold=cfg['th'][0] / cfg['th'][1], output_format=C.SHACL_TURTLE)
                p2 = shacl_text.parse(t2)
                for s in p2['shapes']:
                    cl = lm.get(s['iri'])
                    if cl and len(cl) == 1:
                        exp = longest_stem([k for k, v in sel.items() if cl[0] in v])
                        got = s['pattern'][0][1:] if s['pattern'] else None
                        stats["shacl_patterns"] += got is not None
                        if got != exp:
                            viol.append({"what": "sh:pattern is not the stem", "shape": s['iri'], "pattern": s['pattern'], "expected": exp,
                                         **pipeline.case_json(g, cfg)})
            except Exception as e:
                if not F.match(F.load("C05"), {"kind": "exception", "exc": type(e).__name__, "msg": str(e)[:200], "cfg": cfg, "triples": g}):
                    viol.append({"what": "SHACL with detect_minimal_iri failed: %s %s" % (type(e).__name__, str(e)[:120]), **pipeline.case_json(g, cfg)})
    base.fragment_s_tie(ctx, dis, stats, ['longest_common_prefix', 'determine_suitable_iri_pattern'])
    return base.std_result(ctx, cases, viol, dis, base.known_lines(kf, hit), stats, nontriv, [],
                           "graphs whose instance IRIs come from 1-3 of 9 namespaces with shared / unshared path segments (http, https, urn, a namespace "
                           "that is a string prefix of another) x examples_mode in {None, shape, cons, all} x inverse_paths x detect_minimal_iri, ShExC and "
                           "SHACL (sh:pattern); non-trivial = a stem is printed for a shape with >= 2 instances", DEPS)
