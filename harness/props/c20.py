"""C20 — contradictory or unsupported configurations are rejected up front.

proof: Props/C20.lean (generated guard == reference predicate, for every record)
tie  : regeneration of the guard from the AST  +  exhaustive run of the real constructor /
       shex_graph / profile_graph over the argument-presence product, compared with the generated
       guard evaluated by the driver
search: the Python reference predicate (same 10 lines as Spec/ConfigSpec.lean) on the real outcomes
"""
import itertools, os, tempfile, shutil, json, signal
from common import *
import model, runner, findings as F

PROPS_MODULES = ["ShexerModel.Props.C20"]
SOURCES = ['graph_file_input', 'graph_list_of_files_input', 'raw_graph', 'url_graph_input', 'list_of_url_input',
           'url_endpoint', 'rdflib_graph']
TARGETS = ['target_classes', 'file_target_classes', 'shape_map_file', 'shape_map_raw']
FORMATS = ["nt", "tsv_spo", "turtle", "turtle_iter", "xml", "n3", "json-ld", "bogus"]
COMPR = [None, "gz", "zip", "xz", "bogus"]
EXAMPLES = [None, "shape", "cons", "all", "bogus"]
NT_DOC = '<http://example.org/a> <%s> <http://example.org/C> .\n<http://example.org/a> <http://example.org/p> "x" .\n' % RDF_TYPE


def valid_init(v):
    """the reference predicate of the property text"""
    if sum(v[s] for s in SOURCES) != 1: return False
    if v['all_classes_mode']:
        if v['target_classes'] or v['file_target_classes']: return False
        if v['shape_map_file'] and v['shape_map_raw']: return False
    elif sum(v[t] for t in TARGETS) != 1: return False
    if v['input_format'] not in FORMATS[:-1]: return False
    if v['compression_mode'] not in COMPR[:-1]: return False
    if v['compression_mode'] is not None and (v['url_endpoint'] or v['url_graph_input'] or v['list_of_url_input']): return False
    if v['examples_mode'] not in EXAMPLES[:-1]: return False
    if v['allow_redundant_or'] and v['disable_or_statements']: return False
    return True


def valid_call(c):
    a, b = c['th']
    return (c['string_output'] or c['output_file'] or c['to_uml_path']) and c['output_format'] in ("ShEx", "Shacl") and 0 <= a <= b


EXT = {"nt": "nt", "tsv_spo": "tsv", "turtle": "ttl", "turtle_iter": "ttl", "xml": "xml", "n3": "n3", "json-ld": "jsonld", "bogus": "nt"}


class Env:
    def __init__(self):
        import rdflib, gzip, lzma, zipfile
        self.dir = tempfile.mkdtemp(prefix="verif_c20_")
        self.graph = rdflib.Graph()
        self.graph.parse(data=NT_DOC, format="nt")
        self.docs = {"nt": NT_DOC, "bogus": NT_DOC,
                     "tsv_spo": "".join(l[:-2].replace("> <", ">\t<").replace('> "', '>\t"') + "\n" for l in NT_DOC.strip().split("\n")),
                     "turtle": self.graph.serialize(format="turtle"), "n3": self.graph.serialize(format="n3"),
                     "xml": self.graph.serialize(format="xml"), "json-ld": self.graph.serialize(format="json-ld")}
        self.docs["turtle_iter"] = "@prefix ex: <http://example.org/> .\nex:a a ex:C ;\n ex:p \"x\" .\n"
        self.files = {}
        for fmt, doc in self.docs.items():
            base = os.path.join(self.dir, "g_%s.%s" % (fmt.replace("-", ""), EXT[fmt]))
            open(base, "w").write(doc)
            self.files[(fmt, None)] = base
            self.files[(fmt, "bogus")] = base
            with gzip.open(base + ".gz", "wt") as f: f.write(doc)
            self.files[(fmt, "gz")] = base + ".gz"
            with lzma.open(base + ".xz", "wt") as f: f.write(doc)
            self.files[(fmt, "xz")] = base + ".xz"
            with zipfile.ZipFile(base + ".zip", "w") as z: z.writestr(os.path.basename(base), doc)
            self.files[(fmt, "zip")] = base + ".zip"
        self.tc = os.path.join(self.dir, "targets.txt")
        open(self.tc, "w").write("<http://example.org/C>\n")
        self.sm = os.path.join(self.dir, "sm.txt")
        open(self.sm, "w").write("<http://example.org/a>@<http://example.org/S>\n")

    def close(self):
        shutil.rmtree(self.dir, ignore_errors=True)

    def kwargs(self, v, empty=False):
        kw = {}
        fmt, cm = v['input_format'], v['compression_mode']
        path = self.files[(fmt, cm)]
        vals = {'graph_file_input': path, 'graph_list_of_files_input': [path], 'raw_graph': self.docs[fmt],
                # "remote" sources that work offline: file:// URLs of the uncompressed document in the chosen format
                'url_graph_input': "file://" + self.files.get((fmt, None), "/nonexistent"), 'list_of_url_input': ["file://" + self.files.get((fmt, None), "/nonexistent")],
                'url_endpoint': "http://localhost:9/sparql", 'rdflib_graph': self.graph,
                'target_classes': [EX + "C"], 'file_target_classes': self.tc, 'shape_map_file': self.sm,
                'shape_map_raw': "<http://example.org/a>@<http://example.org/S>"}
        if empty == 'source':
            # an empty but present graph (a Graph() to be filled later, an empty document) next to VALID targets / shape maps
            import rdflib
            vals.update({'rdflib_graph': rdflib.Graph()})       # ("" is not a document in every syntax - RDF/XML, JSON-LD - an empty Graph is always a graph)
        elif empty:
            # present but empty: an argument that is given is given, whatever its truth value
            import rdflib
            vals.update({'raw_graph': "", 'rdflib_graph': rdflib.Graph(), 'target_classes': [], 'shape_map_raw': "",
                         'graph_list_of_files_input': [], 'list_of_url_input': []})
        for k in SOURCES + TARGETS:
            if v[k]:
                kw[k] = vals[k]
        kw['all_classes_mode'] = v['all_classes_mode']
        kw['disable_or_statements'] = v['disable_or_statements']
        kw['allow_redundant_or'] = v['allow_redundant_or']
        kw['input_format'] = v['input_format']
        kw['compression_mode'] = v['compression_mode']
        kw['examples_mode'] = v['examples_mode']
        return kw


def vec(**kw):
    v = {k: False for k in SOURCES + TARGETS}
    v.update(all_classes_mode=False, disable_or_statements=True, allow_redundant_or=False, input_format="nt",
             compression_mode=None, examples_mode=None)
    v.update(kw)
    return v


def enumerate_init(tier):
    """(1) all 2^7 x 2^4 x 2 presence vectors x or-flags with default enumerations;
       (2) every 'presence-valid' vector (+ a few invalid ones) x all enumeration values x or-flags"""
    out = []
    for bits in itertools.product([False, True], repeat=len(SOURCES) + len(TARGETS) + 1):
        for d_or, red in ((True, False), (False, False), (False, True), (True, True)):
            v = vec(disable_or_statements=d_or, allow_redundant_or=red)
            for k, b in zip(SOURCES + TARGETS + ['all_classes_mode'], bits):
                v[k] = b
            out.append(v)
    bases = []
    for s in SOURCES:
        for tset, allc in [((t,), False) for t in TARGETS] + [((), True), (('shape_map_raw',), True), (('shape_map_file',), True)]:
            bases.append(({s} | set(tset), allc))
    bases += [(set(), True), ({'raw_graph', 'graph_file_input'}, True), ({'raw_graph', 'target_classes'}, True),
              ({'raw_graph', 'target_classes', 'shape_map_raw'}, False), ({'raw_graph'}, False)]
    for present, allc in bases:
        for f in FORMATS:
            for c in COMPR:
                for e in EXAMPLES:
                    for d_or, red in ((True, False), (False, True), (True, True)):
                        v = vec(all_classes_mode=allc, input_format=f, compression_mode=c, examples_mode=e,
                                disable_or_statements=d_or, allow_redundant_or=red)
                        for k in present:
                            v[k] = True
                        out.append(v)
    return out


def guard_line(kind, cid, v):
    def enc(x):
        if x is None: return "~"
        if x is True: return "1"
        if x is False: return "0"
        return str(x)
    return "GUARD\t%s\t%s\t" % (kind, cid) + "\t".join("%s=%s" % (k, enc(x)) for k, x in v.items())


class Hang(Exception):
    pass


def canon_exc(e):
    return "ValueError" if type(e) is ValueError else "other:" + type(e).__name__


def real_init(env, v, call=False, empty=False):
    """constructor outcome, and (call=True, accepted, local source) the outcome of the first shex_graph"""
    from shexer.shaper import Shaper
    def _al(*a): raise Hang()
    old = signal.signal(signal.SIGALRM, _al)
    import impl
    signal.alarm(impl.budget(45))
    try:
        try:
            sh = Shaper(**env.kwargs(v, empty=empty))
        except Hang:
            impl.HANGS[0] += 1
            return "hang", None
        except Exception as e:
            return canon_exc(e), None
        if not call or v['url_endpoint'] or ((v['url_graph_input'] or v['list_of_url_input']) and (fmt_of(v), None) not in env.files):
            return "ok", None
        try:
            sh.shex_graph(string_output=True)
            return "ok", "ok"
        except Hang:
            impl.HANGS[0] += 1
            return "ok", "hang"
        except Exception as e:
            return "ok", canon_exc(e)
    finally:
        signal.alarm(0)
        signal.signal(signal.SIGALRM, old)


def fmt_of(v):
    return v['input_format']


def canon_model(g):
    return g if g in ("ok", "ValueError", None) else "other"


def canon_out(o):
    return "other" if o and o.startswith("other:") else o


def run(ctx):
    env = Env()
    stats = {}
    violations, disagreements, known = [], [], []
    kf = F.load("C20")
    try:
        vecs = enumerate_init(ctx.tier)
        lines = []
        for i, v in enumerate(vecs):
            lines.append(guard_line("ctor", "c%d" % i, v))
            lines.append(guard_line("deferred", "d%d" % i, v))
        calls = []
        for so, of, uml in itertools.product([False, True], repeat=3):
            for fmt in ("ShEx", "Shacl", "bogus"):
                for th in ((-1, 100), (0, 1), (1, 2), (1, 1), (101, 100)):
                    calls.append({'string_output': so, 'output_file': of, 'to_uml_path': uml, 'output_format': fmt, 'th': th})
        for j, c in enumerate(calls):
            cv = {k: c[k] for k in ('string_output', 'output_file', 'to_uml_path', 'output_format')}
            cv['thNum'], cv['thDen'] = c['th']
            lines.append(guard_line("shex", "s%d" % j, cv))
            lines.append(guard_line("profile", "p%d" % j, cv))
        mres = model.run_driver(lines) if ctx.driver_ok else {}
        distinct = set()
        nontrivial = 0
        samples = []
        reproduced = set()
        for i, v in enumerate(vecs):
            out, later = real_init(env, v, call=True)
            spec = "ok" if valid_init(v) else "ValueError"
            stats[(spec, out, later)] = stats.get((spec, out, later), 0) + 1
            key = json.dumps(v, sort_keys=True, default=str)
            if key not in distinct:
                distinct.add(key)
                if sum(v[s] for s in SOURCES) >= 1:
                    nontrivial += 1
            if len(samples) < 3 and i % 9973 == 7:
                samples.append({"args": v, "constructor": out, "first_call": later, "reference_predicate": spec,
                                "model_ctor": mres.get("c%d" % i)})
            obs = {"kind": "init", "vector": v, "outcome": out, "later": later, "spec": spec}
            if mres:
                mc, md = canon_model(mres.get("c%d" % i)), canon_model(mres.get("d%d" % i))
                if mc != canon_out(out) and len(disagreements) < 20:
                    disagreements.append({"what": "model constructor (generated guard + shape-map stage) vs real constructor",
                                          "args": v, "model": mres.get("c%d" % i), "constructor": out})
                if later is not None and md != canon_out(later) and len(disagreements) < 20:
                    disagreements.append({"what": "model deferred-failure predicate vs first shex_graph", "args": v,
                                          "model": mres.get("d%d" % i), "first_call": later})
            bad = (out != spec) or (later not in (None, "ok"))
            if bad:
                fid = F.match(kf, obs)
                if fid is not None:
                    reproduced.add(fid)
                else:
                    sig = ("UNEXPLAINED", tuple(k for k in SOURCES + TARGETS + ['all_classes_mode'] if v[k]), v['input_format'], v['compression_mode'], out, later)
                    stats[sig] = stats.get(sig, 0) + 1
                if fid is None and len(violations) < 10:
                    violations.append({"what": "constructor / first call outcome differs from the reference predicate",
                                       "args": v, "constructor": out, "first_call": later, "expected": spec + " / a result",
                                       "how_to_replay": "Shaper(**kwargs) with the present arguments set to small valid values, then shex_graph(string_output=True)"})
        # present-but-empty argument values: the guards test presence (`is not None`), so the constructor must answer as for
        # non-empty values whenever the guard is what decides (a later stage may of course reject an empty shape map)
        stats["empty_value_vectors"] = 0
        for i, v in enumerate(vecs):
            if i % 5 or not any(v[k] for k in ('raw_graph', 'rdflib_graph', 'target_classes', 'shape_map_raw', 'graph_list_of_files_input', 'list_of_url_input')):
                continue
            stats["empty_value_vectors"] += 1
            out_e, _ = real_init(env, v, call=False, empty=True)
            guard = mres.get("G%d" % i) if mres else None
            spec = "ok" if valid_init(v) else "ValueError"
            # the guard part of the reference predicate: an invalid combination is rejected, whatever the values
            if spec == "ValueError" and out_e == "ok" and len(violations) < 10:
                violations.append({"what": "an invalid combination of arguments is accepted when some of them are empty (\"\", [], empty Graph)",
                                   "args": v, "constructor": out_e, "expected": spec})
            if spec == "ok" and out_e == "ValueError" and not (v['shape_map_raw'] or v['shape_map_file']) and len(violations) < 10:
                violations.append({"what": "a valid combination of arguments is rejected with ValueError when an argument is empty (\"\", [], empty Graph)",
                                   "args": v, "constructor": out_e, "expected": spec})
        # an empty graph with valid targets (shape maps included: they are built in the constructor, from the graph that was given)
        stats["empty_source_vectors"] = 0
        for i, v in enumerate(vecs):
            if not v['rdflib_graph'] or not valid_init(v):
                continue
            stats["empty_source_vectors"] += 1
            out_s, _ = real_init(env, v, call=False, empty='source')
            out_n, _ = real_init(env, v, call=False)
            if out_s != out_n and len(violations) < 10:
                violations.append({"what": "the constructor answers differently when the rdflib Graph given is empty than when it is not",
                                   "args": v, "constructor": out_s, "with_a_non_empty_graph": out_n})
        # call-time guards: on a fresh Shaper and on one that has already produced shapes
        # (a guard that only runs on the first pass of the pipeline is not "up front")
        from shexer.shaper import Shaper
        for j, c in enumerate(calls):
            for kind in ("shex", "profile"):
                for warm in (False, True, "unreadable"):
                    if warm == "unreadable":
                        # the guard must speak before any work is done: with a source that cannot be read, an invalid call still
                        # has to end in ValueError, not in the error of the reader
                        sh = Shaper(graph_file_input=os.path.join(env.dir, "does_not_exist.nt"), all_classes_mode=True)
                    else:
                        sh = Shaper(raw_graph=NT_DOC, all_classes_mode=True)
                    if warm is True:
                        sh.shex_graph(string_output=True)
                    outf = os.path.join(env.dir, "out.txt")
                    try:
                        if kind == "shex":
                            sh.shex_graph(string_output=c['string_output'], output_file=outf if c['output_file'] else None,
                                          output_format=c['output_format'], acceptance_threshold=c['th'][0] / c['th'][1],
                                          to_uml_path=None)   # UML needs the network: presence is checked through the guard only
                        else:
                            sh.profile_graph(string_output=c['string_output'], output_file=outf if c['output_file'] else None)
                        out = "ok"
                    except Exception as e:
                        out = type(e).__name__
                    if c['to_uml_path']:
                        continue
                    spec = "ok" if (valid_call(c) if kind == "shex" else (c['string_output'] or c['output_file'])) else "ValueError"
                    if warm == "unreadable":
                        if spec == "ValueError" and out != "ValueError" and len(violations) < 10:
                            violations.append({"what": "%s_graph with invalid arguments on an unreadable source ends in %s: the guard does not run up front" % (kind, out),
                                               "args": c, "observed": out, "expected": "ValueError"})
                        continue
                    stats[(kind, "warm" if warm else "fresh", spec, out)] = stats.get((kind, "warm" if warm else "fresh", spec, out), 0) + 1
                    g = mres.get(("s%d" if kind == "shex" else "p%d") % j)
                    if mres and g != out and len(disagreements) < 20:
                        disagreements.append({"what": "generated %s guard vs call" % kind, "args": c, "warm": warm, "guard": g, "call": out})
                    if out != spec and len(violations) < 10:
                        violations.append({"what": "%s_graph outcome differs from the reference predicate" % kind, "args": c,
                                           "on_a_shaper_that_already_produced_shapes": warm, "observed": out, "expected": spec})
        for f in kf:
            if F.replay(f):
                reproduced.add(f["id"])
        for f in kf:
            if f["id"] in reproduced:
                known.append((f["id"], "%s %s" % (f["id"], f["summary"])))
        return {"evaluations": len(vecs) + 2 * len(calls), "distinct_nontrivial": nontrivial,
                "rule": "exhaustive product of presence/absence of the 7 source and 4 target arguments x all_classes_mode x or-flags "
                        "(default enumerations), plus every presence-valid vector x {8 input formats incl. bogus} x {5 compression} x "
                        "{5 examples modes} x or-flags; each run through the real constructor; non-trivial = at least one source given; "
                        "shex_graph/profile_graph: sinks x formats x 5 thresholds",
                "exhaustive": True, "samples": samples, "stats": {str(k): n for k, n in sorted(stats.items(), key=str)},
                "violations": violations, "disagreements": disagreements, "known": known,
                "generated_deps": ["init_guard", "shex_graph_guard", "profile_graph_guard", "check_just_one_not_none",
                                   "check_target_classes", "check_or_config", "check_input_format", "check_compression_mode",
                                   "check_examples_mode", "check_correct_output_params", "check_output_format",
                                   "check_aceptance_threshold"],
                "assumptions": ["argument values are abstracted to present/absent; present arguments are small valid values",
                                "to_uml_path is exercised through the generated guard only (PlantUML needs the network)"]}
    finally:
        env.close()


def replay(path):
    print(open(path).read())
    return 0
