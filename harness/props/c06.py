"""C06 — the N-Triples reader yields exactly the triples of the document.

proof : Props/C06.lean (tokenizer model: round trip over every statement of the generator's grammar)
tie   : Nt.parseLine (model) vs NtTriplesYielder on the same lines
search: statement -> line -> real reader, compared with the statement the line was rendered from (and with rdflib's
        N-Triples parser as a check of the generator itself)
"""
import random, json, re, itertools, signal, sys
from common import *
import model, findings as F
from props import base

PROPS_MODULES = ["ShexerModel.Props.C06", "ShexerModel.Props.GenStrCorners", "ShexerModel.Props.GenStrLiteral", "ShexerModel.Props.GenStrNtTok", "ShexerModel.Props.GenStrTune2", "ShexerModel.Props.GenNtReader"]
DEPS = ["S.remove_corners", "S.decide_literal_type"] + ["S." + x for x in ('nt_look_for_index_of_closing_quotes', 'nt_look_for_last_index_before_blank', 'nt_look_for_last_index_of_uri_token', 'nt_look_for_last_index_of_bnode_token', 'nt_look_for_last_index_of_unlabelled_number_token', 'nt_look_for_last_index_of_literal_token', 'nt_look_for_tokens', 'parse_literal', 'parse_unquoted_literal', 'tune_subj', 'tune_prop', 'tune_token')]
replay = base.replay

ATOMS = ['\\"', '\\\\', '@', '^^', '#', ' .', '<', '>', 'xsd:', 'geo:', '7', '_', 'é', '\\u00e9', 'a', ' ', '.', '\\"^^', ';', ',',
         '\x0c', '\x85', '\u2028', '\x1d']   # legal raw inside a literal; line separators for str.splitlines(), not for N-Triples
IRIS = ['http://e.org/a', 'http://e.org/a#b', 'http://e.org/u@h', 'http://e.org/_x', 'http://e.org/a:b', 'urn:x:y', 'http://e.org/q?x=1.']
BNODES = ['b0', 'b_1', 'a.b', '7x', 'x-y']
LANGS = ['en', 'en-GB', 'es-419']
DTS = ['http://e.org/dt', XSD + 'integer', 'http://e.org/xsd:foo', 'http://e.org/u@h', 'http://e.org/d#t', XSD + 'string',
       'http://www.w3.org/1999/02/22-rdf-syntax-ns#langString', 'http://www.opengis.net/ont/geosparql#wktLiteral']
LANG_STRING = 'http://www.w3.org/1999/02/22-rdf-syntax-ns#langString'


class Hang(Exception):
    pass


def _alarm(*a):
    raise Hang()


def render_term(t):
    if t[0] == 'I': return '<%s>' % t[1]
    if t[0] == 'B': return '_:%s' % t[1]
    lit = '"%s"' % t[1]
    if t[2][0] == 'lang': return lit + '@' + t[2][1]
    if t[2][0] == 'dt': return lit + '^^<' + t[2][1] + '>'
    return lit


def render(st, layout):
    s, p, o = st
    sep1, sep2, dot, tail, lead = layout
    return lead + render_term(s) + sep1 + render_term(p) + sep2 + render_term(o) + dot + tail


def expected(st):
    s, p, o = st
    def node(t):
        return ('IRI', t[1]) if t[0] == 'I' else ('BNode', '_:' + t[1])
    if o[0] == 'L':
        eo = ('Literal', XSD + 'string' if o[2][0] == 'none' else LANG_STRING if o[2][0] == 'lang' else o[2][1])
    else:
        eo = node(o)
    return (node(s), p[1], eo)


def read_impl(text, source_file=None, **kw):
    from shexer.io.graph.yielder.nt_triples_yielder import NtTriplesYielder
    y = NtTriplesYielder(raw_graph=text, **kw) if source_file is None else NtTriplesYielder(source_file=source_file, **kw)
    old = signal.signal(signal.SIGALRM, _alarm)
    signal.alarm(30 if read_impl.hangs < 2 else 2)     # after two hangs the verdict is in: do not spend 30 s on each further line
    try:
        out = []
        for s, p, o in y.yield_triples():
            so = (type(s).__name__, str(s))
            oo = ('Literal', o.elem_type) if type(o).__name__ == 'Literal' else (type(o).__name__, str(o))
            out.append((so, str(p), oo))
        return ('ok', out, y.error_triples)
    except Hang:
        read_impl.hangs += 1
        return ('hang', [], 0)
    except Exception as e:
        return ('exc:%s:%s' % (type(e).__name__, str(e)[:80]), [], 0)
    finally:
        signal.alarm(0)
        signal.signal(signal.SIGALRM, old)


read_impl.hangs = 0


def rdflib_ok(line, st):
    """the generator's own validity check: rdflib's N-Triples parser reads the same statement"""
    import rdflib
    g = rdflib.Graph()
    try:
        g.parse(data=line + "\n", format='nt')
    except Exception as e:
        return "rdflib rejects the line: %s" % str(e)[:80]
    ts = list(g)
    if len(ts) != 1:
        return "rdflib reads %d triples" % len(ts)
    s, p, o = ts[0]
    e = expected(st)
    if isinstance(o, rdflib.Literal):
        dt = LANG_STRING if o.language else (str(o.datatype) if o.datatype else XSD + 'string')
        if e[2] != ('Literal', dt):
            return "rdflib datatype %s" % dt
    elif isinstance(o, rdflib.URIRef) and e[2] != ('IRI', str(o)):
        return "rdflib object %s" % o
    if isinstance(s, rdflib.URIRef) and e[0] != ('IRI', str(s)):
        return "rdflib subject %s" % s
    return None


LAYOUTS = [(' ', ' ', ' .', '', ''), ('\t', '\t', '.', '', ''), ('  ', ' \t', ' .', ' # c@x "q" ^^<u> .', ''), (' ', ' ', '.', ' #c', '  '),
           (' ', '\t\t', '  .', '', '\t'), (' ', ' ', '.', '#c "', '')]


def statements(tier, rng):
    subs = [('I', i) for i in IRIS] + [('B', b) for b in BNODES]
    preds = [('I', i) for i in IRIS[:5]]
    sufs = [('none',)] + [('lang', l) for l in LANGS] + [('dt', d) for d in DTS]
    L = 2 if tier == "quick" else 3
    # exhaustive literal contents up to L atoms x every suffix form (subject / predicate / layout rotate)
    k = 0
    for n in range(L + 1):
        for atoms in itertools.product(ATOMS, repeat=n):
            for sf in sufs:
                k += 1
                yield (subs[k % len(subs)], preds[k % len(preds)], ('L', ''.join(atoms), sf)), LAYOUTS[k % len(LAYOUTS)], 'exhaustive-L%d' % n
    # every subject x object node x layout
    for s in subs:
        for o in subs:
            for lay in LAYOUTS:
                yield (s, preds[(len(s[1]) + len(o[1])) % len(preds)], o), lay, 'nodes'
    # random longer contents
    for _ in range(2000 if tier == "quick" else 40000):
        atoms = [rng.choice(ATOMS) for _ in range(rng.randint(L + 1, 9))]
        yield (rng.choice(subs), rng.choice(preds), ('L', ''.join(atoms), rng.choice(sufs))), rng.choice(LAYOUTS), 'random'


def run(ctx):
    rng = random.Random(ctx.seed * 600011 + 6)
    kf = F.load("C06")
    hit = set()
    viol, dis = [], []
    stats = {"by_stream": {}, "suffix_forms": {}, "layouts": len(LAYOUTS), "generator_rejected_by_rdflib": 0, "documents": 0}
    cases = list(statements(ctx.tier, rng))
    lines = [render(st, lay) for st, lay, _ in cases]
    # the generator itself (sampled: rdflib is slow)
    step = max(1, len(cases) // (3000 if ctx.tier == "quick" else 20000))
    for i in range(0, len(cases), step):
        why = rdflib_ok(lines[i], cases[i][0])
        if why:
            stats["generator_rejected_by_rdflib"] += 1
            viol.append({"what": "harness generator disagrees with rdflib (generator bug, not a finding): " + why, "line": lines[i]})
    # the implementation, line by line (so that one bad line cannot hide the next) and in documents of 50 lines
    mlines = []
    for i, ((st, lay, stream), line) in enumerate(zip(cases, lines)):
        stats["by_stream"][stream] = stats["by_stream"].get(stream, 0) + 1
        if st[2][0] == 'L':
            stats["suffix_forms"][st[2][2][0]] = stats["suffix_forms"].get(st[2][2][0], 0) + 1
        r = read_impl(line + "\n")
        e = expected(st)
        if r[0] != 'ok' or r[1] != [e] or r[2] != 0:
            obs = {"kind": "nt_line", "line": line, "outcome": r[0], "got": r[1], "errors": r[2], "expected": e, "stmt": st}
            fid = F.match(kf, obs)
            if fid:
                hit.add(fid)
            else:
                viol.append({"what": "N-Triples reader: %s" % ("raised / hung: " + r[0] if r[0] != 'ok' else
                                                                 "line counted as error and dropped" if not r[1] else "different triple"),
                             "line": line, "got": r[1], "error_lines": r[2], "expected": list(e)})
        mlines.append("NT\t" + line.replace("\t", "\\t"))
    for j in range(0, len(cases), 50):
        chunk = cases[j:j + 50]
        doc = "\n".join(lines[j:j + 50]) + "\n"
        stats["documents"] += 1
        r = read_impl(doc)
        exp = [expected(st) for st, _, _ in chunk]
        if r[0] != 'ok' or r[1] != exp or r[2] != 0:
            if all(F.match(kf, {"kind": "nt_doc", "doc": doc}) for _ in [0]):
                hit.add(F.match(kf, {"kind": "nt_doc", "doc": doc}))
            elif not viol:
                viol.append({"what": "document of %d statements: order / count differs although every line alone is read correctly" % len(chunk),
                             "doc": doc[:2000], "got_n": len(r[1]), "errors": r[2]})
        # the same document read from a file (another line reader)
        import tempfile, os
        fd, path = tempfile.mkstemp(prefix="verif_c06_", suffix=".nt")
        try:
            with os.fdopen(fd, "w", encoding="utf-8", newline="") as fh:
                fh.write(doc)
            # ... and as a gz file, as the member of a zip archive, and from the string with numeric inference switched on (every
            # literal of these documents is quoted, so the option must change nothing)
            import gzip, zipfile
            with gzip.open(path + ".gz", "wt", encoding="utf-8", newline="") as fh:
                fh.write(doc)
            with zipfile.ZipFile(path + ".zip", "w") as z:
                z.writestr("d.nt", doc)
            zf = zipfile.ZipFile(path + ".zip")
            others = [("gz file", read_impl(None, source_file=path + ".gz", compression_mode="gz")),
                      ("zip member", read_impl(None, source_file="d.nt", compression_mode="zip", zip_base_archive=zf)),
                      ("string, allow_untyped_numbers", read_impl(doc, allow_untyped_numbers=True))]
            zf.close()
            os.remove(path + ".gz"); os.remove(path + ".zip")
            for cname, rr in others:
                if (rr[0] != 'ok' or rr[1] != exp or rr[2] != 0) and not F.match(kf, {"kind": "nt_doc", "doc": doc}) and not any(v.get("channel") == cname for v in viol):
                    first = next((k for k, (a, b) in enumerate(zip(rr[1], exp)) if a != b), min(len(rr[1]), len(exp)))
                    viol.append({"what": "document of %d statements read as %s: %s" % (len(chunk), cname, rr[0] if rr[0] != 'ok' else
                                         "%d triples for %d statements, %d error lines; first difference at statement %d" % (len(rr[1]), len(exp), rr[2], first)),
                                 "channel": cname, "doc": doc[:2000], "line": lines[j + first] if j + first < len(lines) else None,
                                 "got": rr[1][first:first + 1], "expected": [list(x) for x in exp[first:first + 1]]})
            rf = read_impl(None, source_file=path)
            stats["file_documents"] = stats.get("file_documents", 0) + 1
            if (rf[0] != 'ok' or rf[1] != exp or rf[2] != 0) and not F.match(kf, {"kind": "nt_doc", "doc": doc}) and not any(v.get("channel") == "file" for v in viol):
                first = next((k for k, (a, b) in enumerate(zip(rf[1], exp)) if a != b), min(len(rf[1]), len(exp)))
                viol.append({"what": "document of %d statements read from a FILE: %s" % (len(chunk), rf[0] if rf[0] != 'ok' else
                                     "%d triples for %d statements, %d error lines; first difference at statement %d" % (len(rf[1]), len(exp), rf[2], first)),
                             "channel": "file", "doc": doc[:2000], "line": lines[j + first] if j + first < len(lines) else None})
        finally:
            os.remove(path)
    # very long lines (a WKT polygon, an abstract, a base64 blob): lexical forms around and beyond 2^16 and 2^17 characters, every suffix
    # form, a few awkward atoms sprinkled in; one document, read as a string, from a file, from a gz file and from a zip member
    import tempfile, os, gzip, zipfile
    sufs_long = [('none',), ('lang', 'en-GB'), ('dt', DTS[0]), ('dt', XSD + 'integer'), ('dt', DTS[7])]
    long_cases = []
    for k, n in enumerate([65500, 65536, 65600, 131072 + 17, 200000][:3 if ctx.tier == "quick" else 5]):
        for q, sf in enumerate(sufs_long):
            unit = "ab " + rng.choice(['\\"@en ', '^^<x> ', ' . # ', 'é'])       # whole units only: a cut inside an escape pair would end the literal early
            body = unit * ((n - 3) // len(unit))
            body += 'x' * (n - 3 - len(body)) + rng.choice(['\\"@', 'x^^', ' .#'])
            long_cases.append((('I', IRIS[(k + q) % len(IRIS)]), ('I', IRIS[q % 5]), ('L', body, sf)))
    ldoc = "\n".join(render(st, LAYOUTS[i % 2]) for i, st in enumerate(long_cases)) + "\n"
    lexp = [expected(st) for st in long_cases]
    fd, path = tempfile.mkstemp(prefix="verif_c06_long_", suffix=".nt")
    try:
        with os.fdopen(fd, "w", encoding="utf-8", newline="") as fh:
            fh.write(ldoc)
        with gzip.open(path + ".gz", "wt", encoding="utf-8", newline="") as fh:
            fh.write(ldoc)
        with zipfile.ZipFile(path + ".zip", "w") as z:
            z.writestr("d.nt", ldoc)
        zf = zipfile.ZipFile(path + ".zip")
        for cname, rr in [("string", read_impl(ldoc)), ("file", read_impl(None, source_file=path)),
                          ("gz file", read_impl(None, source_file=path + ".gz", compression_mode="gz")),
                          ("zip member", read_impl(None, source_file="d.nt", compression_mode="zip", zip_base_archive=zf))]:
            stats["long_line_documents"] = stats.get("long_line_documents", 0) + 1
            if rr[0] != 'ok' or rr[1] != lexp or rr[2] != 0:
                first = next((k for k, (a, b) in enumerate(zip(rr[1], lexp)) if a != b), min(len(rr[1]), len(lexp)))
                viol.append({"what": "document of %d very long statements (lexical forms of 65 500 .. 200 000 characters) read as %s: %s" % (
                    len(long_cases), cname, rr[0] if rr[0] != 'ok' else "%d triples for %d statements, %d error lines; first difference at statement %d "
                    "(lexical form of %d characters)" % (len(rr[1]), len(lexp), rr[2], first, len(long_cases[min(first, len(long_cases) - 1)][2][1]))),
                    "channel": cname, "got": rr[1][first:first + 1], "expected": [list(x) for x in lexp[first:first + 1]],
                    "long_line_family": {"seed": ctx.seed, "statement": first}})
        zf.close()
    finally:
        for x in (path, path + ".gz", path + ".zip"):
            if os.path.exists(x):
                os.remove(x)
    # correspondence with the model
    if ctx.driver_ok:
        mres = model.run_driver(mlines + ["RUN\tntlines\tall"]).get("all", [])
        if len(mres) != len(cases):
            dis.append({"what": "model returned %d answers for %d lines" % (len(mres), len(cases))})
        else:
            for (st, lay, _), line, ml in zip(cases, lines, mres):
                r = read_impl(line + "\n")
                if r[0] == 'ok' and len(r[1]) == 1:
                    (sk, sv), p, (ok_, ov) = r[1][0]
                    got = "OK\t%s\t%s\t%s\t%s\t%s" % (sk, sv, p, ok_, ov)
                elif r[0] == 'ok':
                    got = "DROPPED"
                else:
                    got = "EXC"
                if got != ml:
                    dis.append({"what": "Nt.parseLine (model) vs NtTriplesYielder", "line": line, "model": ml, "impl": got})
                    if len(dis) > 20:
                        break
    base.fragment_s_tie(ctx, dis, stats, ['remove_corners', 'decide_literal_type', 'there_is_arroba_after_last_quotes', 'nt_look_for_index_of_closing_quotes', 'nt_look_for_last_index_before_blank', 'nt_look_for_last_index_of_uri_token', 'nt_look_for_last_index_of_bnode_token', 'nt_look_for_last_index_of_unlabelled_number_token', 'nt_look_for_last_index_of_literal_token', 'nt_look_for_tokens', 'parse_literal', 'parse_unquoted_literal', 'tune_subj', 'tune_prop', 'tune_token'])
    return base.std_result(ctx, cases, viol, dis, base.known_lines(kf, hit), stats, sum(1 for st, _, _ in cases if st[2][0] == 'L' and len(st[2][1]) > 0), [],
                           "single-line N-Triples statements: literal contents = every string of <= %d atoms over a %d-atom adversarial alphabet "
                           "(escaped quote, escaped backslash, '@', '^^', '#', ' .', '<', '>', 'xsd:', 'geo:', digits, '_', non-ASCII, \\\\uXXXX, ';', ',') x "
                           "{none, @lang, @lang-REGION, ^^<datatype>} exhaustively, random up to 9 atoms; IRIs with '#', '@', '_', ':', '?', '.'; blank-node "
                           "labels incl. 'a.b'; %d layouts (space / tab / multiple, no space before the dot, trailing comment, leading blanks); every line "
                           "alone and in documents of 50" % (2 if ctx.tier == "quick" else 3, len(ATOMS), len(LAYOUTS)), DEPS)
