"""Talks to the Lean driver (native executable built by `lake build driver`)."""
import subprocess, os
from common import *

DRIVER = os.path.join(VERIF, 'lean', '.lake', 'build', 'bin', 'driver')
SPEC_DRIVER = os.path.join(VERIF, 'lean', '.lake', 'build', 'bin', 'specdriver')


def cfg_line(cfg):
    kv = {'instProp': cfg['inst_prop'],
          'allClasses': int(cfg['target_mode'] == 'all'),
          'cap': max(cfg['cap'], 0),
          'inverse': int(cfg['inverse']),
          'thNum': cfg['th'][0], 'thDen': cfg['th'][1],
          'allCompliant': int(cfg['all_compliant']), 'keepLessSpecific': int(cfg['keep_less_specific']),
          'discardUseless': int(cfg['discard_useless']), 'allowOpt': int(cfg['allow_opt']),
          'disableExact': int(cfg['disable_exact']), 'disableComments': int(cfg['disable_comments']),
          'disableOr': int(cfg['disable_or']), 'allowRedundantOr': int(cfg['allow_redundant_or']),
          'removeEmpty': int(cfg['remove_empty']), 'shapesNs': cfg['shapes_ns'],
          'detectMinIri': int(cfg.get('detect_min_iri', False))}
    if cfg['target_mode'] == 'classes':
        kv['targets'] = "|".join(cfg['targets'])
    if cfg.get('from_file'):
        kv['targetsFromFile'] = 1
    if cfg['ignore_ns'] is not None:
        kv['ignoreNs'] = "|".join(cfg['ignore_ns'])
    return "CFG\t" + "\t".join("%s=%s" % (k, v) for k, v in kv.items())


def term_fields(t):
    if t[0] == 'I': return ('I', t[1])
    if t[0] == 'B': return ('B', t[1])
    return ('L', term_dt(t))


def case_lines(triples, cfg, what, cid, sel_flags=None):
    out = [cfg_line(cfg)]
    for i, (s, p, o) in enumerate(triples):
        sk, sv = term_fields(s)
        ok, ov = term_fields(o)
        tag = "T" if sel_flags is None or sel_flags[i] else "TX"
        out.append("%s\t%s\t%s\t%s\t%s\t%s" % (tag, sk, sv, p, ok, ov))
    out.append("RUN\t%s\t%s" % (what, cid))
    return out


def run_driver(lines, spec_only=False):
    """feed protocol lines, return {case id: [output lines]}"""
    p = subprocess.run([SPEC_DRIVER if spec_only else DRIVER], input="\n".join(lines) + "\n", capture_output=True, text=True, timeout=600)
    if p.returncode != 0:
        raise RuntimeError("driver failed: " + p.stderr[:500])
    res = {}
    cur = None
    for ln in p.stdout.split("\n"):
        if ln.startswith("G\t"):
            f = ln.split("\t")
            res[f[1]] = f[2]
            continue
        if ln.startswith("BEGIN\t"):
            cur = ln.split("\t", 1)[1]
            res[cur] = []
        elif ln == "END":
            cur = None
        elif cur is not None:
            res[cur].append(ln)
        elif ln.strip():
            raise RuntimeError("unexpected driver output: " + ln)
    return res


def parse_shapes(lines):
    shapes = []
    for ln in lines:
        f = ln.split("\t")
        if f[0] == 'SHAPE':
            shapes.append({'name': f[1], 'class': f[2], 'n': int(f[3]), 'stmts': []})
        elif f[0] == 'ST':
            shapes[-1]['stmts'].append({'inv': f[1] == 'I', 'prop': f[2], 'types': f[3].split('|'), 'card': f[4],
                                        'n': int(f[5]),
                                        'parts': tuple(int(x) for x in f[6].split('+')) if f[6] != '-' else None,
                                        'comments': []})
        elif f[0] == 'CM':
            shapes[-1]['stmts'][-1]['comments'].append({'n': int(f[1]), 'ty': f[2], 'card': f[3]})
        else:
            raise RuntimeError("bad model line " + ln)
    return shapes
