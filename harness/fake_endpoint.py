"""An in-process SPARQL evaluator substituted for sheXer's HTTP client: `shexer.io.sparql.query._query_endpoint_json_result`
is replaced by a function that evaluates the query with rdflib over a given graph and returns the SPARQL JSON result
structure. Queries are counted and logged."""
import json, contextlib
import rdflib
import shexer.io.sparql.query as Q

URL = "http://fake.endpoint/sparql"


class FakeEndpoint(object):
    def __init__(self, nt_text):
        self.graph = rdflib.Graph()
        self.graph.parse(data=nt_text, format='nt')
        self.queries = []

    def __call__(self, endpoint_url, str_query, max_retries=5, sleep_time=2, fake_user_agent=True):
        self.queries.append(str_query)
        res = self.graph.query(str_query)
        data = json.loads(res.serialize(format='json').decode('utf-8'))
        # deterministic row order (a real endpoint has one; rdflib's depends on hashing)
        data['results']['bindings'].sort(key=lambda row: json.dumps(row, sort_keys=True))
        return data


@contextlib.contextmanager
def serving(nt_text):
    fe = FakeEndpoint(nt_text)
    old = Q._query_endpoint_json_result
    Q._query_endpoint_json_result = fe
    try:
        yield fe
    finally:
        Q._query_endpoint_json_result = old
