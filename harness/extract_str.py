"""Fragment S of the extractor: small Python string functions -> Lean over `List Char` (`Base/PyOps.lean`).

Supported: parameters / locals / module constants of type str, int, bool, optional str; `+`; slices `x[i:j]`; `len`;
`.startswith` `.endswith` `.find` `.rfind` `.strip`; `in` / `not in` on strings; comparisons; `and` / `or` / `not`;
`x is None` / `is not None` (with narrowing in `if`); conditional expressions; `x[-1] == c` / `!= c` (translated as
`endswith`, which differs from Python only on the empty string, where Python raises IndexError - reported as an assumption);
assignments, conditional re-assignment of one local, `if` / `elif` / `else`, `return`, `raise ValueError / RuntimeError`;
calls of `urljoin` (a parameter `resolve` of the generated function) and of other translated functions;
`x[i]` with an int index (hoisted into a monadic `PyOps.index`, IndexError as in Python; not under `and` / `or` / conditional
expressions, whose laziness the hoisting would lose); `for i in range(e):` whose body only tests and returns / raises
(`PyOps.forRange`, early exit on `return`), likewise `for x in xs:` over a parameter that is a list of strings (`PyOps.forEach`); `x[::-1]`; `P.search(x)` for a module constant `P = re.compile("[...]")` that is a
plain character class, of whose match object only `is None` and `.start()` are used; functions returning `None` or a string;
dictionaries of strings (insertion-ordered lists of pairs): `d[k]` (KeyError as in Python), the find-first idiom
`v = None; for k in d: if c: v = k; break` (`PyOps.findFirst`), `x.replace(a, b)`; `return a if c else b` read as an `if`.
`while c: body` over the locals the body assigns (`PyOps.whileFuel`; the generated function takes a leading `fuel : Nat`, and so does every
function that calls it), with `break` / `continue` / `return` inside, `x += e` / `x -= e`, a list of strings built by `r = []` / `r.append(e)`,
`len(list)`, `x.find(p, start)`, `c.isspace()` / `c.isnumeric()` on a character `x[i]` (isnumeric: ASCII digits, reported as an assumption), a
character compared with a one-character constant; in a `while` / `if` condition `x[i]` may stand behind `and` / `or` (the condition is then
a monadic expression that keeps Python's short-circuit order).
Every generated function returns `Except PyExc T`."""
import ast


class Untranslatable(Exception):
    pass


def lstr(s):
    return '"' + s.replace('\\', '\\\\').replace('"', '\\"').replace('\n', '\\n').replace('\t', '\\t').replace('\r', '\\r') + '".toList'


def lchar(c):
    if c in ("'", "\\"):
        return "'\\%s'" % c
    if 32 <= ord(c) < 127:
        return "'%s'" % c
    return "(Char.ofNat %d)" % ord(c)


CONSTRUCTORS = {'IRI': ('PyOps.Obj.iri', 1), 'BNode': ('PyOps.Obj.bnode', 1), 'Property': ('PyOps.Obj.prop', 1), 'Literal': ('PyOps.Obj.lit', 2)}
IS_INTEGER_BODY = "if float_number % 1.0 == 0:\n    return True\nreturn False"


NARROWS = {'optstr': 'str', 'optint': 'matchpos'}     # `x is None` tests narrow an optional to this type
EXC = {'ValueError': 'PyExc.valueError', 'RuntimeError': 'PyExc.runtimeError', 'IndexError': 'PyExc.indexError', 'KeyError': 'PyExc.keyError', 'TypeError': 'PyExc.typeError'}


def is_loop(x):
    return bool(x)


def is_while(x):
    return isinstance(x, tuple)


class TrS:
    def __init__(self, params, consts, known_funcs, assumptions):
        self.env = dict(params)          # python name -> type
        self.consts = consts             # module-level string constants
        self.known = known_funcs         # python function name -> (lean name, [param types], ret type, needs_resolve)
        self.assumptions = assumptions
        self.uses_resolve = False
        self.uses_fuel = False
        self.uses_float = False
        self.hoist = []                  # monadic binds (`let c ← PyOps.index x i`) the current statement needs first
        self.lazy_depth = 0              # > 0 inside `and` / `or` / conditional expressions
        self.fresh = 0

    # ------------------------------------------------------------ expressions
    def expr(self, n):
        if isinstance(n, ast.Constant):
            if isinstance(n.value, bool):
                return ("true" if n.value else "false"), 'bool'
            if isinstance(n.value, str):
                return lstr(n.value), 'str'
            if isinstance(n.value, int):
                return "(%d : Int)" % n.value, 'int'
            if n.value is None:
                return "none", 'optstr'
        if isinstance(n, ast.Tuple) and len(n.elts) == 2 and all(isinstance(e_, ast.Constant) and e_.value is None for e_ in n.elts):
            return "none", 'optstrint'           # `return None, None`
        if isinstance(n, ast.Tuple) and len(n.elts) == 2:
            (a, ta), (b, tb) = self.expr(n.elts[0]), self.expr(n.elts[1])
            if ta == tb == 'str':
                return "(%s, %s)" % (a, b), 'strpair'
            if ta in ('str', 'char') and tb == 'int':     # `return token, next_index` (x[i] as a token is the one-character string)
                return "(some (%s, %s))" % (a if ta == 'str' else "[%s]" % a, b), 'optstrint'
            raise Untranslatable("tuple of %s, %s" % (ta, tb))
        if isinstance(n, ast.Call) and isinstance(n.func, ast.Name) and n.func.id in CONSTRUCTORS and self.consts.get('__imports__', {}).get(n.func.id, '').startswith('shexer.model.'):
            # a model object built by the readers: IRI(content) / BNode(identifier) / Property(content) / Literal(content, elem_type)
            lean, arity = CONSTRUCTORS[n.func.id]
            order = {'content': 0, 'identifier': 0, 'elem_type': 1}
            given = list(n.args) + [None] * (arity - len(n.args))
            for kw in n.keywords:
                if kw.arg not in order or order[kw.arg] >= arity or given[order[kw.arg]] is not None:
                    raise Untranslatable("constructor keyword " + str(kw.arg))
                given[order[kw.arg]] = kw.value
            if len(n.args) > arity or any(g is None for g in given):
                raise Untranslatable("constructor arguments of " + n.func.id)
            parts = [self.expr(g) for g in given]
            if any(t != 'str' for _, t in parts):
                raise Untranslatable("constructor argument that is not a string")
            return "(%s %s)" % (lean, " ".join(c for c, _ in parts)), 'obj'
        if isinstance(n, ast.Call) and isinstance(n.func, ast.Name) and n.func.id == '_is_integer' and self.consts.get('_is_integer') == ('float_is_integer',) \
                and len(n.args) == 1 and isinstance(n.args[0], ast.Name) and self.env.get(n.args[0].id) == 'floatint':
            return n.args[0].id, 'bool'          # `float(tok) % 1.0 == 0`, the boolean the parameter `floatOf` returns
        if isinstance(n, ast.List) and not n.elts:
            return "([] : List (List Char))", 'strlist'
        if isinstance(n, ast.Name):
            if n.id in self.env:
                return n.id, self.env[n.id]
            if isinstance(self.consts.get(n.id), str):
                return lstr(self.consts[n.id]), 'str'
            raise Untranslatable("unknown name " + n.id)
        if isinstance(n, ast.Attribute) and isinstance(n.value, ast.Name) and n.value.id == 'self' and ('self.' + n.attr) in self.env:
            return "self" + n.attr, self.env['self.' + n.attr]          # an attribute of the object read by the method: an extra parameter
        if isinstance(n, ast.BinOp) and isinstance(n.op, (ast.Add, ast.Sub)):
            (a, ta), (b, tb) = self.expr(n.left), self.expr(n.right)
            if ta == tb == 'str' and isinstance(n.op, ast.Add):
                return "(%s ++ %s)" % (a, b), 'str'
            if ta == tb == 'int':
                return "(%s %s %s)" % (a, '+' if isinstance(n.op, ast.Add) else '-', b), 'int'
            raise Untranslatable("binop types %s %s" % (ta, tb))
        if isinstance(n, ast.BinOp) and isinstance(n.op, ast.Mod) and isinstance(n.right, ast.Constant) and isinstance(n.right.value, int) \
                and not isinstance(n.right.value, bool) and n.right.value > 0:
            a, ta = self.expr(n.left)
            if ta == 'int':        # Python's % with a positive modulus is the non-negative remainder: Lean's `%` on Int (`Int.emod`)
                return "(%s %% (%d : Int))" % (a, n.right.value), 'int'
        if isinstance(n, ast.UnaryOp) and isinstance(n.op, ast.USub):
            a, ta = self.expr(n.operand)
            if ta == 'int':
                return "(-%s)" % a, 'int'
        if isinstance(n, ast.UnaryOp) and isinstance(n.op, ast.Not):
            a, ta = self.expr(n.operand)
            if ta == 'bool':
                return "(!%s)" % a, 'bool'
        if isinstance(n, ast.BoolOp):
            self.lazy_depth += 1
            try:
                parts = [self.expr(v) for v in n.values]
            finally:
                self.lazy_depth -= 1
            if all(t == 'bool' for _, t in parts):
                return "(" + (" && " if isinstance(n.op, ast.And) else " || ").join(c for c, _ in parts) + ")", 'bool'
            raise Untranslatable("boolop on non-bools")
        if isinstance(n, ast.IfExp):
            c, tc = self.expr(n.test)
            self.lazy_depth += 1
            try:
                (a, ta), (b, tb) = self.expr(n.body), self.expr(n.orelse)
            finally:
                self.lazy_depth -= 1
            if tc == 'bool' and ta == tb:
                return "(if %s then %s else %s)" % (c, a, b), ta
            raise Untranslatable("ifexp types")
        if isinstance(n, ast.Subscript) and isinstance(n.slice, ast.Slice):
            x, tx = self.expr(n.value)
            st = n.slice.step
            if tx == 'str' and n.slice.lower is None and n.slice.upper is None and isinstance(st, ast.UnaryOp) and isinstance(st.op, ast.USub) \
                    and isinstance(st.operand, ast.Constant) and st.operand.value == 1:
                return "(%s).reverse" % x, 'str'       # x[::-1]
            if tx != 'str' or n.slice.step is not None:
                raise Untranslatable("slice of non-string / with step")
            def bound(b):
                if b is None:
                    return "none"
                c, t = self.expr(b)
                if t != 'int':
                    raise Untranslatable("slice bound is not an int")
                return "(some %s)" % c
            return "(PyOps.slice %s %s %s)" % (x, bound(n.slice.lower), bound(n.slice.upper)), 'str'
        if isinstance(n, ast.Subscript) and not isinstance(n.slice, ast.Slice):
            x, tx = self.expr(n.value)
            i, ti = self.expr(n.slice)
            if tx == 'strdict' and ti == 'str':
                if self.lazy_depth:
                    raise Untranslatable("d[k] under a lazily evaluated operator")
                self.fresh += 1
                v = "d_%d" % self.fresh
                self.hoist.append("let %s ← PyOps.dictGet %s %s" % (v, x, i))
                return v, 'str'
            if tx == 'strlist' and ti == 'int':
                if self.lazy_depth:
                    raise Untranslatable("l[i] under a lazily evaluated operator")
                self.fresh += 1
                v = "e_%d" % self.fresh
                self.hoist.append("let %s ← PyOps.indexL %s %s" % (v, x, i))
                return v, 'str'
            if tx == 'str' and ti == 'int':
                if self.lazy_depth:
                    raise Untranslatable("x[i] under a lazily evaluated operator")
                self.fresh += 1
                v = "c_%d" % self.fresh
                self.hoist.append("let %s ← PyOps.index %s %s" % (v, x, i))
                return v, 'char'
            raise Untranslatable("subscript of %s by %s" % (tx, ti))
        if isinstance(n, ast.Call):
            f = n.func
            if isinstance(f, ast.Name) and f.id == 'len' and len(n.args) == 1:
                x, tx = self.expr(n.args[0])
                if tx in ('str', 'strlist'):
                    return "((%s).length : Int)" % x, 'int'
            if isinstance(f, ast.Name) and f.id == 'urljoin' and len(n.args) == 2:
                (a, ta), (b, tb) = self.expr(n.args[0]), self.expr(n.args[1])
                if ta == tb == 'str':
                    self.uses_resolve = True
                    return "(resolve %s %s)" % (a, b), 'str'
            fkey = f.id if isinstance(f, ast.Name) else ('self.' + f.attr if isinstance(f, ast.Attribute) and isinstance(f.value, ast.Name)
                                                         and f.value.id in ('self', self.consts.get('__class__')) else None)
            if fkey is not None and isinstance(self.consts.get(fkey), tuple) and self.consts[fkey][0] == 'func':
                # a function of the same module / a method of the same class that was itself translated: monadic call, bound before the statement
                # (so not under a lazy operator); a method receives the object's attributes it may read as leading arguments
                _, lname, ptypes, rty = self.consts[fkey][:4]
                defaults = self.consts[fkey][4] if len(self.consts[fkey]) > 4 else {}
                f = ast.Name(id=fkey, ctx=ast.Load())
                names = [p for p, _ in ptypes]
                given = list(n.args) + [None] * (len(ptypes) - len(n.args))
                for kw in n.keywords:
                    if kw.arg not in names or given[names.index(kw.arg)] is not None:
                        raise Untranslatable("call with unknown / repeated keyword " + str(kw.arg))
                    given[names.index(kw.arg)] = kw.value
                given = [g if g is not None else defaults.get(pn) for g, (pn, _) in zip(given, ptypes)]      # constant defaults of the callee
                if len(n.args) > len(ptypes) or any(g is None for g in given):
                    raise Untranslatable("call of %s without all arguments (and no constant default)" % f.id)
                if self.lazy_depth:
                    raise Untranslatable("function call under a lazily evaluated operator")
                cargs = []
                for g, (pn, pt) in zip(given, ptypes):
                    c, t = self.expr(g)
                    if t != pt:
                        raise Untranslatable("argument %s of %s: %s for %s" % (pn, f.id, t, pt))
                    cargs.append(c)
                self.fresh += 1
                v = "r_%d" % self.fresh
                need = self.consts[fkey][5] if len(self.consts[fkey]) > 5 else []       # the attributes the callee reads
                if any(k not in self.env for k in need):
                    raise Untranslatable("callee %s reads an attribute the caller does not have" % fkey)
                selfargs = ["self" + k[5:] for k in need]
                if len(self.consts[fkey]) > 6 and self.consts[fkey][6]:      # the callee runs a `while` loop: it takes the caller's fuel
                    self.uses_fuel = True
                    selfargs = ["fuel"] + selfargs
                if len(self.consts[fkey]) > 8 and self.consts[fkey][8]:      # the callee calls float(): the same external function
                    self.uses_float = True
                    selfargs = ["floatOf"] + selfargs
                if len(self.consts[fkey]) > 7 and self.consts[fkey][7]:      # the callee calls urljoin: the same external function
                    self.uses_resolve = True
                    selfargs = ["resolve"] + selfargs
                self.hoist.append("let %s ← %s %s" % (v, lname, " ".join(selfargs + cargs)))
                return v, rty
            if isinstance(f, ast.Attribute) and f.attr == 'search' and isinstance(f.value, ast.Name) and len(n.args) == 1 and not n.keywords \
                    and isinstance(self.consts.get(f.value.id), tuple) and self.consts[f.value.id][0] == 'charclass':
                x, tx = self.expr(n.args[0])
                if tx == 'str':      # re.compile("[abc]").search(x): a match object, of which only `is None` and `.start()` are used
                    return "(PyOps.searchClass %s %s)" % (lstr(self.consts[f.value.id][1]), x), 'optint'
            if isinstance(f, ast.Attribute) and f.attr == 'sub' and isinstance(f.value, ast.Name) and len(n.args) == 2 and not n.keywords \
                    and isinstance(n.args[0], ast.Constant) and isinstance(n.args[0].value, str) and isinstance(self.consts.get(f.value.id), tuple):
                kind = self.consts[f.value.id]
                x, tx = self.expr(n.args[1])
                if tx == 'str' and kind[0] == 'charclass':          # re.compile("[abc]").sub(rep, x): every character of the class becomes rep
                    return "(PyOps.subClass %s %s %s)" % (lstr(kind[1]), lstr(n.args[0].value), x), 'str'
                if tx == 'str' and kind == ('several_blanks',) and n.args[0].value == " ":      # re.compile("  +").sub(" ", x)
                    return "(PyOps.squeezeBlanks %s)" % x, 'str'
            if isinstance(f, ast.Attribute) and f.attr == 'start' and isinstance(f.value, ast.Name) and not n.args and not n.keywords \
                    and self.env.get(f.value.id) == 'matchpos':
                return f.value.id, 'int'
            if isinstance(f, ast.Attribute) and not n.keywords:
                x, tx = self.expr(f.value)
                args = [self.expr(a) for a in n.args]
                if tx == 'char' and not args and f.attr == 'isspace':
                    return "(PyOps.isSpace %s)" % x, 'bool'
                if tx == 'char' and not args and f.attr == 'isnumeric':
                    self.assumptions.add("c.isnumeric() read as: c is an ASCII digit (other numeric code points are outside the documents in scope)")
                    return "(PyOps.isNumeric %s)" % x, 'bool'
                if tx == 'str' and f.attr == 'split' and len(n.args) == 1 and isinstance(n.args[0], ast.Constant) and isinstance(n.args[0].value, str) \
                        and len(n.args[0].value) == 1:
                    return "(PyOps.splitChar %s %s)" % (x, lchar(n.args[0].value)), 'strlist'      # x.split(c) for a one-character separator
                if tx == 'str' and f.attr == 'find' and len(args) == 2 and args[0][1] == 'str' and args[1][1] == 'int':
                    return "(PyOps.findAt %s %s %s)" % (x, args[0][0], args[1][0]), 'int'
                if tx == 'str':
                    if f.attr in ('startswith', 'endswith') and len(args) == 1 and args[0][1] == 'str':
                        return "(PyOps.%s %s %s)" % ('startsWith' if f.attr == 'startswith' else 'endsWith', x, args[0][0]), 'bool'
                    if f.attr in ('find', 'rfind') and len(args) == 1 and args[0][1] == 'str':
                        return "(PyOps.%s %s %s)" % (f.attr, x, args[0][0]), 'int'
                    if f.attr == 'strip' and not args:
                        return "(PyOps.strip %s)" % x, 'str'
                    if f.attr == 'replace' and len(args) == 2 and args[0][1] == args[1][1] == 'str':
                        return "(PyOps.replace %s %s %s)" % (x, args[0][0], args[1][0]), 'str'
            raise Untranslatable("call " + ast.dump(n)[:120])
        if isinstance(n, ast.Compare) and len(n.ops) == 1:
            l, op, r = n.left, n.ops[0], n.comparators[0]
            if isinstance(op, (ast.In, ast.NotIn)) and isinstance(r, (ast.List, ast.Tuple)) and r.elts:
                a, ta = self.expr(l)                      # `x in [A, B, C]` with string elements: a disjunction of equalities
                elts = [self.expr(e) for e in r.elts]
                if ta == 'str' and all(t == 'str' for _, t in elts):
                    e = "(" + " || ".join("(%s == %s)" % (a, c) for c, _ in elts) + ")"
                    return (e if isinstance(op, ast.In) else "(!%s)" % e), 'bool'
                raise Untranslatable("membership in a list of non-strings")
            # x[-1] == "c"  /  x[-1] != "c"
            if isinstance(l, ast.Subscript) and not isinstance(l.slice, ast.Slice) and isinstance(op, (ast.Eq, ast.NotEq)):
                idx = l.slice
                if isinstance(idx, ast.UnaryOp) and isinstance(idx.op, ast.USub) and isinstance(idx.operand, ast.Constant) and idx.operand.value == 1 \
                        and isinstance(r, ast.Constant) and isinstance(r.value, str) and len(r.value) == 1:
                    x, tx = self.expr(l.value)
                    if tx == 'str':
                        self.assumptions.add("x[-1] == c read as x.endswith(c) (differs only on the empty string, where Python raises IndexError)")
                        e = "(PyOps.endsWith %s %s)" % (x, lstr(r.value))
                        return (e if isinstance(op, ast.Eq) else "(!%s)" % e), 'bool'
            if isinstance(op, (ast.Is, ast.IsNot)) and isinstance(r, ast.Constant) and r.value is None:
                x, tx = self.expr(l)
                if tx in ('optstr', 'optint'):
                    return "(%s).%s" % (x, "isSome" if isinstance(op, ast.IsNot) else "isNone"), 'bool'
                if tx == 'str':     # a plain string is never None
                    return ("true" if isinstance(op, ast.IsNot) else "false"), 'bool'
            if isinstance(op, (ast.In, ast.NotIn)) and isinstance(r, ast.Name) and isinstance(self.consts.get(r.id), tuple) and self.consts[r.id][0] == 'charlist':
                a, ta = self.expr(l)
                if ta == 'char':       # x[i] in ["a", "b"] for a module-level list of one-character strings
                    e = "((%s).contains %s)" % (lstr(self.consts[r.id][1]), a)
                    return (e if isinstance(op, ast.In) else "(!%s)" % e), 'bool'
                raise Untranslatable("membership of a non-character in a list of characters")
            if isinstance(op, (ast.In, ast.NotIn)) and isinstance(r, ast.Name) and isinstance(self.consts.get(r.id), tuple) and self.consts[r.id][0] == 'strconstlist':
                a, ta = self.expr(l)
                if ta == 'str':        # x in ["a", "rdf:type"] for a module-level list of strings
                    e = "(" + " || ".join("(%s == %s)" % (a, lstr(v)) for v in self.consts[r.id][1]) + ")"
                    return (e if isinstance(op, ast.In) else "(!%s)" % e), 'bool'
                raise Untranslatable("membership of a non-string in a list of strings")
            (a, ta), (b, tb) = self.expr(l), self.expr(r)
            if isinstance(op, (ast.Eq, ast.NotEq)) and ta == 'char' and isinstance(r, ast.Constant) and isinstance(r.value, str) and len(r.value) == 1:
                e = "(%s == %s)" % (a, lchar(r.value))          # x[i] == "c": one-character strings are equal iff the characters are
                return (e if isinstance(op, ast.Eq) else "(!%s)" % e), 'bool'
            if isinstance(op, (ast.In, ast.NotIn)) and ta == 'char' and tb == 'str':
                e = "((%s).contains %s)" % (b, a)       # x[i] in "abc": a one-character string is in s iff the character occurs in s
                return (e if isinstance(op, ast.In) else "(!%s)" % e), 'bool'
            if isinstance(op, (ast.In, ast.NotIn)) and ta == 'str' and tb == 'strdict':
                e = "(PyOps.dictHas %s %s)" % (b, a)
                return (e if isinstance(op, ast.In) else "(!%s)" % e), 'bool'
            if isinstance(op, (ast.In, ast.NotIn)) and ta == tb == 'str':
                e = "(PyOps.isIn %s %s)" % (a, b)
                return (e if isinstance(op, ast.In) else "(!%s)" % e), 'bool'
            if isinstance(op, (ast.Eq, ast.NotEq)) and ta == tb and ta in ('str', 'int', 'bool', 'char'):
                e = "(%s == %s)" % (a, b)
                return (e if isinstance(op, ast.Eq) else "(!%s)" % e), 'bool'
            if isinstance(op, (ast.Lt, ast.Gt, ast.LtE, ast.GtE)) and ta == tb == 'int':
                sym = {ast.Lt: "<", ast.Gt: ">", ast.LtE: "≤", ast.GtE: "≥"}[type(op)]
                return "(decide (%s %s %s))" % (a, sym, b), 'bool'
        raise Untranslatable("expr " + ast.dump(n)[:160])

    def boolean(self, n):
        c, t = self.expr(n)
        if t == 'bool':
            return c
        raise Untranslatable("condition is not a bool: " + ast.dump(n)[:100])

    def mcond(self, n):
        """a condition as a monadic expression `Except PyExc Bool`: `and` / `or` evaluate their right operand (with its `x[i]` binds) only when
        Python would"""
        if isinstance(n, ast.BoolOp):
            parts = [self.mcond(v) for v in n.values]
            code = parts[-1]
            for p in reversed(parts[:-1]):
                if isinstance(n.op, ast.And):
                    code = "(do\n  if !(← %s) then pure false else %s)" % (p, code)
                else:
                    code = "(do\n  if (← %s) then pure true else %s)" % (p, code)
            return code
        saved_h, saved_l = self.hoist, self.lazy_depth
        self.hoist, self.lazy_depth = [], 0
        try:
            c = self.boolean(n)
            pre = self.hoist
        finally:
            self.hoist, self.lazy_depth = saved_h, saved_l
        return "(do\n  " + "".join(h + "\n  " for h in pre) + "pure %s)" % c

    def test(self, n):
        """the test of an `if`: plain when it translates as an expression, else monadic (short-circuit kept)"""
        if self.translates_as_expression(n):
            return self.boolean(n)
        return "(← %s)" % self.mcond(n)

    @staticmethod
    def loop_assigned(stmts):
        out = set()
        for s in stmts:
            if isinstance(s, ast.Assign) and len(s.targets) == 1 and isinstance(s.targets[0], ast.Name):
                out.add(s.targets[0].id)
            elif isinstance(s, ast.AugAssign) and isinstance(s.target, ast.Name):
                out.add(s.target.id)
            elif isinstance(s, ast.Expr) and isinstance(s.value, ast.Call) and isinstance(s.value.func, ast.Attribute) \
                    and s.value.func.attr == 'append' and isinstance(s.value.func.value, ast.Name):
                out.add(s.value.func.value.id)
            elif isinstance(s, ast.If):
                out |= TrS.loop_assigned(s.body) | TrS.loop_assigned(s.orelse)
            elif isinstance(s, (ast.While, ast.For)):
                raise Untranslatable("nested loop")
        return out

    # ------------------------------------------------------------ statements
    @staticmethod
    def terminates(stmts):
        for s in stmts:
            if isinstance(s, (ast.Return, ast.Raise, ast.Break, ast.Continue)):
                return True
            if isinstance(s, ast.If) and TrS.terminates(s.body) and TrS.terminates(s.orelse):
                return True
        return False

    def translates_as_expression(self, node):
        saved = (list(self.hoist), self.fresh, dict(self.env), self.lazy_depth, getattr(self, 'uses_resolve', False), set(self.assumptions))
        try:
            self.expr(node)
            return True
        except Untranslatable:
            return False
        finally:
            self.hoist, self.fresh, self.env, self.lazy_depth, self.uses_resolve = saved[0], saved[1], saved[2], saved[3], saved[4]
            self.assumptions.clear()
            self.assumptions.update(saved[5])

    @staticmethod
    def iteration_local(stmts, cont_term=False):
        """loop body whose assignments cannot outlive the iteration: after every assignment all paths return / raise before the body ends
        (`if c: r = f(x); if flag: r = g(r); return r`); tests, returns and raises are free"""
        for k, s in enumerate(stmts):
            rest_term = TrS.terminates(stmts[k + 1:]) or cont_term
            if isinstance(s, (ast.Return, ast.Raise)) or (isinstance(s, ast.Expr) and isinstance(s.value, ast.Constant)):
                continue
            if isinstance(s, ast.Assign) and len(s.targets) == 1 and isinstance(s.targets[0], ast.Name):
                if not rest_term:
                    return False
                continue
            if isinstance(s, ast.If):
                if not (TrS.iteration_local(s.body, rest_term) and TrS.iteration_local(s.orelse, rest_term)):
                    return False
                continue
            return False
        return True

    @staticmethod
    def find_first(s, tail):
        """`v = None` followed by `for k in d: if c1: [if c2: ...] v = k; break`  ->  (v, k, d, [c1, c2, ...])"""
        if not (isinstance(s, ast.Assign) and len(s.targets) == 1 and isinstance(s.targets[0], ast.Name) and isinstance(s.value, ast.Constant)
                and s.value.value is None and tail and isinstance(tail[0], ast.For)):
            return None
        loop = tail[0]
        if not isinstance(loop.target, ast.Name) or loop.orelse:
            return None
        var, key = s.targets[0].id, loop.target.id
        conds, body = [], loop.body
        while len(body) == 1 and isinstance(body[0], ast.If) and not body[0].orelse:
            conds.append(body[0].test)
            body = body[0].body
        if len(body) == 2 and isinstance(body[0], ast.Assign) and len(body[0].targets) == 1 and isinstance(body[0].targets[0], ast.Name) \
                and body[0].targets[0].id == var and isinstance(body[0].value, ast.Name) and body[0].value.id == key and isinstance(body[1], ast.Break):
            return var, key, loop.iter, conds
        return None

    @staticmethod
    def only_tests_and_exits(stmts):
        return all(isinstance(s, (ast.Return, ast.Raise)) or (isinstance(s, ast.If) and TrS.only_tests_and_exits(s.body) and TrS.only_tests_and_exits(s.orelse))
                   for s in stmts)

    @staticmethod
    def assigned(stmts):
        out = set()
        for s in stmts:
            if isinstance(s, ast.Assign) and len(s.targets) == 1 and isinstance(s.targets[0], ast.Name):
                out.add(s.targets[0].id)
            elif isinstance(s, ast.If):
                out |= TrS.assigned(s.body) | TrS.assigned(s.orelse)
            elif isinstance(s, ast.Expr) and isinstance(s.value, ast.Constant):
                pass
            else:
                out.add(None)
        return out

    def reassign(self, stmts, var):
        """value of `var` after a block that only (conditionally) re-assigns `var`"""
        if not stmts:
            return var
        s, tail = stmts[0], stmts[1:]
        if isinstance(s, ast.Assign):
            e, t = self.expr(s.value)
            if t != self.env[var]:
                raise Untranslatable("re-assignment changes the type of " + var)
            return "(let %s := %s; %s)" % (var, e, self.reassign(tail, var))
        if isinstance(s, ast.If):
            return "(let %s := (if %s then %s else %s); %s)" % (var, self.boolean(s.test), self.reassign(s.body, var), self.reassign(s.orelse, var),
                                                                 self.reassign(tail, var))
        return self.reassign(tail, var)

    def narrowing(self, test):
        """`x is not None` / `x is None` on an optional parameter -> (name, positive?)"""
        if isinstance(test, ast.Compare) and len(test.ops) == 1 and isinstance(test.ops[0], (ast.Is, ast.IsNot)) \
                and isinstance(test.comparators[0], ast.Constant) and test.comparators[0].value is None and isinstance(test.left, ast.Name) \
                and self.env.get(test.left.id) in NARROWS:
            return test.left.id, isinstance(test.ops[0], ast.IsNot)
        if isinstance(test, ast.Compare) and len(test.ops) == 1 and isinstance(test.ops[0], (ast.Is, ast.IsNot)) \
                and isinstance(test.comparators[0], ast.Constant) and test.comparators[0].value is None and isinstance(test.left, ast.Attribute) \
                and isinstance(test.left.value, ast.Name) and test.left.value.id == 'self' and self.env.get('self.' + test.left.attr) in NARROWS:
            return 'self.' + test.left.attr, isinstance(test.ops[0], ast.IsNot)      # an attribute the method reads
        return None

    def flush(self, code):
        """put the monadic binds collected while translating the expressions of one statement in front of it"""
        pre, self.hoist = self.hoist, []
        return "".join(h + "\n  " for h in pre) + code

    def block(self, stmts, ret, in_loop=False):
        """in_loop: the block is the body of `for i in range(..)`: its value is `Option ret` (`some v` = `return v`, `none` = next round)"""
        if not stmts:
            if is_while(in_loop):
                return "pure (PyOps.Ctl.next %s)" % in_loop[1]
            if in_loop:
                return "pure none"
            if ret == 'optstr':
                return "pure none"          # a function that falls off its end returns None
            if ret == 'unit':
                return "pure ()"
            if ret == 'int':
                self.assumptions.add("a function used as an int that falls off its end returns None; the generated function raises TypeError there "
                                     "(what the first arithmetic use of the result does in the caller)")
                return "throw PyExc.typeError"
            raise Untranslatable("falls off the end without a value")
        s, tail = stmts[0], stmts[1:]
        if isinstance(s, ast.Return) and isinstance(s.value, ast.IfExp):
            # `return a if c else b` is `if c: return a` / `else: return b` (so that a None test narrows and x[i] / d[k] stay in their branch)
            s = ast.If(test=s.value.test, body=[ast.Return(value=s.value.body)], orelse=[ast.Return(value=s.value.orelse)])
        if isinstance(s, ast.Assign) and len(s.targets) == 1 and isinstance(s.targets[0], ast.Name) and isinstance(s.value, ast.Constant) \
                and s.value.value is None and len(tail) >= 2 and isinstance(tail[1], ast.For) and isinstance(tail[0], ast.Assign) \
                and len(tail[0].targets) == 1 and isinstance(tail[0].targets[0], ast.Name) and tail[0].targets[0].id != s.targets[0].id \
                and not any(isinstance(x, ast.Name) and x.id == s.targets[0].id for x in ast.walk(tail[0].value)):
            # `v = None; w = e; for ...`: the two assignments commute (e does not mention v); moving `v = None` next to its loop lets the
            # find-first idiom be recognised
            s, tail = tail[0], [s] + list(tail[1:])
        if isinstance(s, ast.Assign) and len(s.targets) == 1 and isinstance(s.targets[0], ast.Name) and isinstance(s.value, ast.IfExp) \
                and not self.translates_as_expression(s.value):
            # `x = a if c else b` whose branches need a bind (a call, x[i]) is `if c: x = a` / `else: x = b`, so that the bind stays in its branch;
            # a conditional expression that translates as such stays one
            s = ast.If(test=s.value.test, body=[ast.Assign(targets=s.targets, value=s.value.body)],
                       orelse=[ast.Assign(targets=s.targets, value=s.value.orelse)])
        ff = self.find_first(s, tail)
        if ff is not None:
            var, key, dct, conds = ff
            if in_loop:
                raise Untranslatable("nested loop")
            d_e, d_t = self.expr(dct)
            if d_t != 'strdict':
                raise Untranslatable("find-first loop over something else than a dictionary of strings")
            old_k = self.env.get(key)
            self.env[key] = 'str'
            self.lazy_depth += 1
            try:
                cs = [self.boolean(c) for c in conds]
            finally:
                self.lazy_depth -= 1
                if old_k is None:
                    del self.env[key]
                else:
                    self.env[key] = old_k
            self.env[var] = 'optstr'
            return "let %s := PyOps.findFirst %s (fun %s => %s)\n  %s" % (var, d_e, key, " && ".join(cs) or "true", self.block(tail[1:], ret))
        if isinstance(s, ast.AugAssign) and isinstance(s.target, ast.Name) and isinstance(s.op, (ast.Add, ast.Sub)):
            s = ast.Assign(targets=[ast.Name(id=s.target.id, ctx=ast.Store())], value=ast.BinOp(left=ast.Name(id=s.target.id, ctx=ast.Load()), op=s.op, right=s.value))
        if isinstance(s, ast.Expr) and isinstance(s.value, ast.Call) and isinstance(s.value.func, ast.Attribute) and s.value.func.attr == 'append' \
                and isinstance(s.value.func.value, ast.Name) and self.env.get(s.value.func.value.id) == 'strlist' and len(s.value.args) == 1 \
                and not s.value.keywords:
            e, t = self.expr(s.value.args[0])
            if t != 'str':
                raise Untranslatable("append of a non-string")
            v = s.value.func.value.id
            return self.flush("let %s := %s ++ [%s]\n  " % (v, v, e)) + self.block(tail, ret, in_loop)
        if isinstance(s, ast.Assign) and len(s.targets) == 1 and isinstance(s.targets[0], ast.Tuple) and len(s.targets[0].elts) == 2 \
                and all(isinstance(e_, ast.Name) for e_ in s.targets[0].elts):
            e, t = self.expr(s.value)             # `a, b = f(x)` for a function returning a pair of strings
            if t != 'strpair':
                raise Untranslatable("unpacking of " + t)
            a_, b_ = (e_.id for e_ in s.targets[0].elts)
            for v_ in (a_, b_):
                if v_ in self.env and self.env[v_] != 'str':
                    raise Untranslatable("assignment changes the type of " + v_)
                self.env[v_] = 'str'
            self.fresh += 1
            pr = "p_%d" % self.fresh
            return self.flush("let %s := %s\n  let %s := %s.1\n  let %s := %s.2\n  " % (pr, e, a_, pr, b_, pr)) + self.block(tail, ret, in_loop)
        if isinstance(s, ast.Try) and not in_loop and not s.orelse and not s.finalbody and len(s.handlers) == 1 and s.handlers[0].type is None \
                and len(s.handlers[0].body) == 1 and isinstance(s.handlers[0].body[0], ast.Pass) and s.body and isinstance(s.body[0], ast.Assign) \
                and len(s.body[0].targets) == 1 and isinstance(s.body[0].targets[0], ast.Name) and isinstance(s.body[0].value, ast.Call) \
                and isinstance(s.body[0].value.func, ast.Name) and s.body[0].value.func.id == 'float' and len(s.body[0].value.args) == 1:
            # `try: x = float(e); <statements that cannot raise, ending in return> except: pass` - float() is the parameter `floatOf`
            # (none = ValueError, some b = the value is a whole number); what follows the `try` runs when float() raised
            e, t = self.expr(s.body[0].value.args[0])
            if t != 'str':
                raise Untranslatable("float() of a non-string")
            if not self.terminates(s.body[1:]):
                raise Untranslatable("try body that does not end in return")
            x = s.body[0].targets[0].id
            self.uses_float = True
            self.assumptions.add("float(tok) is the parameter floatOf: none = ValueError, some b = (the value % 1.0 == 0)")
            old = self.env.get(x)
            self.env[x] = 'floatint'
            try:
                n_h = len(self.hoist)
                inner = self.block(list(s.body[1:]), ret)
            finally:
                if old is None:
                    del self.env[x]
                else:
                    self.env[x] = old
            if "←" in inner or "throw" in inner or len(self.hoist) != n_h:
                raise Untranslatable("try body that may raise after float()")
            return self.flush("match floatOf %s with\n  | some %s => (do\n  %s)\n  | none => (do\n  %s)" % (e, x, inner, self.block(tail, ret)))
        if isinstance(s, ast.Try) and not in_loop and not tail and ret == 'bool' and not s.orelse and not s.finalbody and len(s.handlers) == 1 \
                and isinstance(s.handlers[0].type, ast.Name) and s.handlers[0].type.id == 'ValueError' and len(s.handlers[0].body) == 1 \
                and isinstance(s.handlers[0].body[0], ast.Return) and isinstance(s.handlers[0].body[0].value, ast.Constant) and s.handlers[0].body[0].value.value is False \
                and len(s.body) == 2 and isinstance(s.body[0], ast.Expr) and isinstance(s.body[0].value, ast.Call) and isinstance(s.body[0].value.func, ast.Name) \
                and s.body[0].value.func.id == 'float' and len(s.body[0].value.args) == 1 and isinstance(s.body[1], ast.Return) \
                and isinstance(s.body[1].value, ast.Constant) and s.body[1].value.value is True:
            # `try: float(e); return True / except ValueError: return False`: does float() accept e
            e, t = self.expr(s.body[0].value.args[0])
            if t != 'str':
                raise Untranslatable("float() of a non-string")
            self.uses_float = True
            self.assumptions.add("float(tok) is the parameter floatOf: none = ValueError, some b = (the value % 1.0 == 0)")
            return self.flush("pure ((floatOf %s).isSome)" % e)
        if isinstance(s, ast.Expr) and isinstance(s.value, ast.Call) and not in_loop:
            e, t = self.expr(s.value)
            if t != 'unit':
                raise Untranslatable("call statement of a function that returns a value")
            return self.flush("") + self.block(tail, ret, in_loop)
        if isinstance(s, ast.Assign) and len(s.targets) == 1 and not tail and not in_loop and ret == 'strpair' and isinstance(s.targets[0], ast.Subscript) \
                and isinstance(s.targets[0].value, ast.Attribute) and isinstance(s.targets[0].value.value, ast.Name) and s.targets[0].value.value.id == 'self' \
                and self.env.get('self.' + s.targets[0].value.attr) == 'strdict':
            # the method's effect `self.d[k] = v` as its last statement: the function returns the update (k, v), the caller's glue applies it
            (k_, tk), (v_, tv) = self.expr(s.targets[0].slice), self.expr(s.value)
            if tk == tv == 'str':
                self.assumptions.add("a method ending in `self.<dict>[k] = v` is modelled as returning the update (k, v)")
                return self.flush("pure (%s, %s)" % (k_, v_))
        if isinstance(s, ast.Assign) and len(s.targets) == 1 and not tail and not in_loop and ret == 'str' and isinstance(s.targets[0], ast.Attribute) \
                and isinstance(s.targets[0].value, ast.Name) and s.targets[0].value.id == 'self' and ('self.' + s.targets[0].attr) in self.env:
            e, t = self.expr(s.value)      # the method's effect `self.a = v` as its last statement: the function returns v
            if t == 'str':
                self.assumptions.add("a method ending in `self.<attribute> = v` is modelled as returning v")
                return self.flush("pure %s" % e)
        if isinstance(s, ast.Break) and is_while(in_loop):
            return "pure (PyOps.Ctl.brk %s)" % in_loop[1]
        if isinstance(s, ast.Continue) and is_while(in_loop):
            return "pure (PyOps.Ctl.next %s)" % in_loop[1]
        if isinstance(s, ast.While):
            if in_loop:
                raise Untranslatable("nested loop")
            if s.orelse:
                raise Untranslatable("while with an else clause")
            state = sorted(v for v in self.loop_assigned(s.body) if v in self.env)
            if not state:
                raise Untranslatable("while loop that assigns none of the variables defined before it")
            tup = state[0] if len(state) == 1 else "(" + ", ".join(state) + ")"
            self.uses_fuel = True
            cond = self.mcond(s.test)
            saved_env = dict(self.env)
            try:
                body = self.block(list(s.body), ret, in_loop=('while', tup))
            finally:
                self.env = saved_env
            self.fresh += 1
            r = "w_%d" % self.fresh
            return ("let %s ← PyOps.whileFuel (fun %s => do\n  if !(← %s) then pure (PyOps.Ctl.brk %s) else (do\n  %s)) fuel %s\n"
                    "  match %s with\n  | .inr v => pure v\n  | .inl %s => (do\n  %s)") % (r, tup, cond, tup, body, tup, r, tup, self.block(tail, ret))
        if isinstance(s, ast.For):
            if in_loop:
                raise Untranslatable("nested loop")
            it = s.iter
            if not isinstance(s.target, ast.Name) or s.orelse:
                raise Untranslatable("loop with a pattern target or an else clause")
            if not self.iteration_local(s.body):
                raise Untranslatable("loop body assigns a variable that outlives the iteration, or does more than test / assign / return / raise")
            if isinstance(it, ast.Call) and isinstance(it.func, ast.Name) and it.func.id == 'range' and len(it.args) == 1:
                n_e, n_t = self.expr(it.args[0])
                if n_t != 'int':
                    raise Untranslatable("range of a non-int")
                loop, var_t = "PyOps.forRange %s" % n_e, 'int'
            else:
                n_e, n_t = self.expr(it)
                if n_t == 'strdict':          # iterating a dictionary yields its keys, in insertion order
                    n_e, n_t = "(List.map Prod.fst %s)" % n_e, 'strlist'
                if n_t != 'strlist':
                    raise Untranslatable("loop other than `for i in range(e)` / `for x in <list of strings>` / `for k in <dict of strings>`")
                loop, var_t = "PyOps.forEach %s" % n_e, 'str'
            head = self.flush("")
            var = s.target.id
            old = self.env.get(var)
            self.env[var] = var_t
            try:
                body = self.block(list(s.body), ret, in_loop=True)
            finally:
                if old is None:
                    del self.env[var]
                else:
                    self.env[var] = old
            self.fresh += 1
            r = "r_%d" % self.fresh
            return "%slet %s ← %s (fun %s => do\n  %s)\n  match %s with\n  | some v => pure v\n  | none => (do\n  %s)" % (
                head, r, loop, var, body, r, self.block(tail, ret))
        if isinstance(s, ast.Expr) and isinstance(s.value, ast.Constant):
            return self.block(tail, ret, in_loop)
        if isinstance(s, ast.Return):
            e, t = self.expr(s.value) if s.value is not None else ("none", 'optstr')
            if ret == 'optstr' and t == 'str':
                e, t = "(some %s)" % e, 'optstr'
            if t != ret:
                raise Untranslatable("returns %s, expected %s" % (t, ret))
            if is_while(in_loop):
                return self.flush("pure (PyOps.Ctl.ret %s)" % e)
            return self.flush("pure (some %s)" % e if in_loop else "pure %s" % e)
        if isinstance(s, ast.Raise):
            exc = s.exc
            name = exc.func.id if isinstance(exc, ast.Call) and isinstance(exc.func, ast.Name) else (exc.id if isinstance(exc, ast.Name) else None)
            if name not in EXC:
                raise Untranslatable("raise of " + str(name))
            return "throw %s" % EXC[name]
        if isinstance(s, ast.Assign) and len(s.targets) == 1 and isinstance(s.targets[0], ast.Name):
            e, t = self.expr(s.value)
            v = s.targets[0].id
            if v in self.env and self.env[v] != t:
                raise Untranslatable("assignment changes the type of " + v)
            self.env[v] = t       # inside a loop body only iteration-local assignments get here (checked at the `for`)
            return self.flush("let %s := %s\n  " % (v, e)) + self.block(tail, ret, in_loop)
        if isinstance(s, ast.If):
            nar = self.narrowing(s.test)
            if nar is not None and in_loop:
                raise Untranslatable("None test inside a loop body")
            if nar is not None:
                name, pos = nar
                some_b, none_b = (s.body, s.orelse) if pos else (s.orelse, s.body)
                cont_needed = not (self.terminates(s.body) and self.terminates(s.orelse))
                def branch(stmts_, narrowed):
                    old = self.env[name]
                    if narrowed:
                        self.env[name] = NARROWS[old]
                    try:
                        return self.block(list(stmts_) + (tail if cont_needed or not self.terminates(stmts_) else []), ret)
                    finally:
                        self.env[name] = old
                lv = ("self" + name[5:]) if name.startswith('self.') else name
                return "match %s with\n  | some %s => (do\n  %s)\n  | none => (do\n  %s)" % (lv, lv, branch(some_b, True), branch(none_b, False))
            a = self.assigned([s])
            both = len(a) == 1 and None not in a and next(iter(a)) not in self.env and len(s.body) == 1 and len(s.orelse) == 1 \
                and isinstance(s.body[0], ast.Assign) and isinstance(s.orelse[0], ast.Assign)      # first assignment in both branches: general path
            if None not in a and len(a) == 1 and not self.terminates([s]) and not in_loop and not both:
                var = next(iter(a))
                if var not in self.env:
                    raise Untranslatable("conditional first assignment of " + var)
                n_h = len(self.hoist)
                re_e = self.reassign([s], var)
                if len(self.hoist) != n_h:
                    raise Untranslatable("x[i] inside a conditional re-assignment")
                return "let %s := %s\n  %s" % (var, re_e, self.block(tail, ret))
            test = self.test(s.test)
            head = self.flush("")
            body = self.block(list(s.body) + ([] if self.terminates(s.body) else tail), ret, in_loop)
            orelse = self.block(list(s.orelse) + ([] if self.terminates(s.orelse) else tail), ret, in_loop)
            return "%sif %s then (do\n  %s)\n  else (do\n  %s)" % (head, test, body, orelse)
        raise Untranslatable("stmt " + ast.dump(s)[:120])


LEAN_TY = {'unit': 'Unit', 'optstrint': 'Option (List Char × Int)', 'obj': 'PyOps.Obj', 'strpair': 'List Char × List Char', 'str': 'List Char', 'int': 'Int', 'bool': 'Bool', 'optstr': 'Option (List Char)', 'optint': 'Option Int', 'char': 'Char', 'matchpos': 'Int',
           'strlist': 'List (List Char)', 'strdict': 'List (List Char × List Char)'}


LEAN_RESERVED = {'prefix', 'infix', 'infixl', 'infixr', 'postfix', 'notation', 'at', 'from', 'fun', 'do', 'then', 'else', 'if', 'let', 'have', 'show', 'match',
                 'with', 'end', 'open', 'in', 'by', 'where', 'instance', 'class', 'structure', 'def', 'theorem', 'namespace', 'section', 'variable',
                 'universe', 'import', 'export', 'deriving', 'mutual', 'macro', 'syntax', 'local', 'private', 'protected', 'partial', 'unsafe',
                 'noncomputable', 'abbrev', 'example', 'axiom', 'opaque', 'inductive', 'extends', 'for', 'unless', 'return', 'try', 'catch', 'finally',
                 'break', 'continue', 'nomatch', 'nofun', 'using', 'calc', 'suffices', 'obtain', 'set_option', 'attribute', 'Type', 'Prop', 'Sort',
                 'mut', 'rec', 'termination_by', 'decreasing_by', 'true', 'false', 'none', 'some', 'pure', 'bind', 'fuel', 'resolve', 'floatOf'}


class _Rename(ast.NodeTransformer):
    """Python variables whose names are Lean keywords (or names the generated code uses itself) get a suffix"""
    def visit_Name(self, n):
        if n.id in LEAN_RESERVED:
            return ast.copy_location(ast.Name(id=n.id + "_py", ctx=n.ctx), n)
        return n

    def visit_arg(self, n):
        if n.arg in LEAN_RESERVED:
            n.arg = n.arg + "_py"
        return n


def translate(out, report, assumptions, lean_name, fn, param_types, ret, consts, skip=('self',)):
    import copy
    fn = _Rename().visit(copy.deepcopy(fn))
    param_types = {(k + "_py" if k in LEAN_RESERVED else k): v for k, v in param_types.items()}
    params = [(a.arg, param_types.get(a.arg)) for a in fn.args.args if a.arg not in skip]
    selfattrs = [(k, t) for k, t in param_types.items() if k.startswith('self.')]
    try:
        for p, t in params:
            if t is None:
                raise Untranslatable("untyped parameter " + p)
        tr = TrS(dict(selfattrs + params), consts, {}, assumptions)
        body = tr.block(list(fn.body), ret)
        if tr.hoist:
            raise Untranslatable("an index expression was left unbound")
        sig = " ".join("(%s : %s)" % (("self" + p[5:]) if p.startswith('self.') else p, LEAN_TY[t]) for p, t in selfattrs + params)
        if tr.uses_fuel:
            sig = "(fuel : Nat) " + sig
        if tr.uses_float:
            sig = "(floatOf : List Char → Option Bool) " + sig
        if tr.uses_resolve:
            sig = "(resolve : List Char → List Char → List Char) " + sig
        out.append("def %s %s : Except PyExc (%s) := do\n  %s\n" % (lean_name, sig, LEAN_TY[ret], body))
        report[lean_name] = 'translated'
        return True
    except Untranslatable as e:
        out.append("def %s_untranslatable : Unit := ()  -- %s\n" % (lean_name, str(e)[:200].replace("\n", " ")))
        report[lean_name] = 'UNTRANSLATABLE: ' + str(e)[:200]
        return False
