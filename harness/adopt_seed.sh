#!/bin/bash
# usage: adopt_seed.sh <scratch id, e.g. C05k> <k> : confirm a sub-agent's mutation in its worktree (/tmp/wt/<scratch id>) and store it as
# seeded/<Cxx>-m<next free index>/ (patch.diff, demo.py, notes.md, meta.json)
S="$1"; K="$2"; P="${S:0:3}"
git -C /tmp/wt/$S checkout -q --detach HEAD 2>/dev/null; git -C /tmp/wt/$S checkout -q -- . 
python3 /verif/harness/confirm_seed.py "$S" "$K" | tail -3 || { echo "not confirmed"; exit 1; }
[ -d /verif/seeded/$S-m$K ] || exit 1
N=1; while [ -d /verif/seeded/$P-m$N ]; do N=$((N+1)); done
mv /verif/seeded/$S-m$K /verif/seeded/$P-m$N
sed -i "s/$S-m$K/$P-m$N/g; s/\"breaks_property\": \"$S\"/\"breaks_property\": \"$P\"/; s#check $S #check $P #" /verif/seeded/$P-m$N/meta.json
echo "adopted as $P-m$N"
