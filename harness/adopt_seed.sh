#!/bin/bash
# usage: adopt_seed.sh <scratch id, e.g. C01c> <property id> <k>   -- confirms /tmp/seeded_out/<scratch>/m1.* in /tmp/wt/<scratch>, stores it as seeded/<property>-m<k>
set -e
S="$1"; P="$2"; K="$3"
cd /verif
python3 harness/confirm_seed.py "$S" 1 2>&1 | tail -1
[ -d "seeded/$S-m1" ] || exit 1
rm -rf "seeded/$P-m$K"; mv "seeded/$S-m1" "seeded/$P-m$K"
sed -i "s/$S-m1/$P-m$K/g; s/\"breaks_property\": \"$S\"/\"breaks_property\": \"$P\"/; s#./check $S#./check $P#" "seeded/$P-m$K/meta.json"
git -C /repo worktree remove --force "/tmp/wt/$S" 2>/dev/null || true
echo "stored seeded/$P-m$K"
