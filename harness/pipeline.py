"""Shared engine of the pipeline properties (C01 C02 C03 C09 C10 C12 C13 C14 C16):
runs the implementation, the Lean model and the Lean Spec on the same cases."""
import json
from fractions import Fraction
from common import *
import impl, model, compare, oracle, shex_text


def run_impl(cases, **extra):
    out = []
    for triples, cfg in cases:
        try:
            out.append(impl.run_shapes(triples, cfg, **extra))
        except shex_text.ShexParseError as e:
            out.append(('unparsable', str(e)))
    return out


def run_model(cases, what='shapes'):
    lines = []
    for i, (triples, cfg) in enumerate(cases):
        lines += model.case_lines(triples, cfg, what, "m%d" % i)
    res = model.run_driver(lines)
    return [res.get("m%d" % i) for i in range(len(cases))]


def run_spec(cases, impl_results):
    """for every figure the implementation printed, the Lean Spec's answer"""
    lines = []
    allfacts = []
    for i, ((triples, cfg), r) in enumerate(zip(cases, impl_results)):
        if r[0] != 'ok':
            allfacts.append(None)
            continue
        lm = oracle.classes_for_labels(triples, cfg)
        facts = oracle.facts_of(r[1], cfg, lm)
        allfacts.append(facts)
        body = model.case_lines(triples, oracle.spec_cfg(cfg), 'spec', "s%d" % i,
                                sel_flags=oracle.cap_keep_flags(triples, cfg))
        qs = []
        for f in facts:
            if f['kind'] == 'size':
                qs.append("Q\t%s\tD\t-\t-\t+" % f['class'])
            elif f['kind'] in ('line', 'comment'):
                qs.append("Q\t%s\t%s\t%s\t%s\t%s" % (f['class'], 'I' if f['inv'] else 'D', f['prop'], f['ty'], f['card']))
        lines += body[:-1] + qs + body[-1:]
    res = model.run_driver(lines, spec_only=True) if lines else {}
    out = []
    for i, facts in enumerate(allfacts):
        if facts is None:
            out.append(None)
            continue
        answers = res.get("s%d" % i, [])
        k = 0
        for f in facts:
            if f['kind'] == 'unknown-label':
                continue
            a = answers[k].split("\t")
            k += 1
            f['spec_n'] = int(a[1])
            f['spec_N'] = int(a[2])
        out.append(facts)
    return out


def fact_failures(facts, cfg):
    """facts that disagree with the Spec: count, denominator, ratio text, ratio > 100 %"""
    bad = []
    for f in facts or []:
        if f['kind'] == 'unknown-label':
            bad.append(dict(f, why='shape label does not correspond to exactly one class'))
            continue
        if f['kind'] == 'size':
            if f['n'] != f['spec_N']:
                bad.append(dict(f, why='instance count %d, selected nodes %d' % (f['n'], f['spec_N'])))
            continue
        n, N = f['spec_n'], f['spec_N']
        if f['n'] is not None and f['n'] != n and not f['maybe_generalized']:
            bad.append(dict(f, why='count %d, specification %d' % (f['n'], n)))
        elif f['ratio'] is not None:
            shown_n = f['n'] if f['n'] is not None else n
            if not f['maybe_generalized'] and not compare.ratio_ok(f['ratio'], shown_n if f['n'] is not None else n, N, cfg['decimals']):
                bad.append(dict(f, why='ratio text %s does not render %d/%d' % (f['ratio'], n, N)))
        if f['ratio'] is not None:
            try:
                if Fraction(f['ratio']) > 100:
                    bad.append(dict(f, why='ratio above 100 %'))
            except Exception:
                bad.append(dict(f, why='unreadable ratio'))
    return bad


def shrink(triples, cfg, still_fails, max_rounds=4):
    """greedy: drop triples one by one while the failure persists"""
    cur = list(triples)
    for _ in range(max_rounds):
        changed = False
        i = 0
        while i < len(cur):
            cand = cur[:i] + cur[i + 1:]
            try:
                ok = still_fails(cand, cfg)
            except Exception:
                ok = False
            if ok:
                cur = cand
                changed = True
            else:
                i += 1
        if not changed:
            break
    return cur


def case_json(triples, cfg):
    return {"nt": to_nt(triples), "cfg": {k: (list(v) if isinstance(v, tuple) else v) for k, v in cfg.items()}}
