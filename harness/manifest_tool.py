#!/usr/bin/env python3
"""Regenerates MANIFEST.json from the table below (kept in one place so it is always valid)."""
import json, os
HERE = os.path.dirname(os.path.dirname(os.path.abspath(__file__)))
props = [json.loads(l) for l in open(os.path.join(HERE, "properties.jsonl"))]

CLAIMED = {
 "C20": dict(
   text="Proof: the constructor-time and call-time guards are regenerated from the Python AST on every run and proved equal to the "
        "reference predicate for every argument record (all strings, all presence vectors, all rational thresholds); the later "
        "configuration-only failure points are a hand-written model proved total outside two listed findings. Tie: regeneration + "
        "exhaustive (not sampled) run of the real constructor and first call over ~49 000 argument vectors.",
   note="Trusts Lean's kernel (axioms: propext, Classical.choice, Quot.sound), harness/extract.py, and the abstraction of argument "
        "values to present/absent. The shape-map stage of the constructor and the deferred-failure predicate are modelled by hand "
        "and validated exhaustively against the implementation.",
   technique="Lean 4 proof over AST-generated guard + exhaustive correspondence", design="5/C20"),
 "C01": dict(
   text="Proof (R1): for every graph, configuration and selection of instances, every entry of the class profile - the only source "
        "of the figures on constraint lines and in comments - equals the declarative count (number of selected nodes with exactly k / "
        "at least one value of the stated kind), and every class count equals the number of selected nodes; no entry exceeds the class "
        "count. Tie: ordered correspondence of the canonical shape list between the Lean model and the implementation; every figure the "
        "implementation prints is recomputed by the Lean Spec through the driver (failing-input search).",
   note="Trusts Lean's kernel, harness/extract.py, the ShExC text parser and the correspondence domain (class targets / all classes, "
        "cap, ignored namespaces, inverse paths, all switches). The passage of figures from the profile through the merge stages is "
        "modelled and validated; theorems about it are in Props/C01b.lean when listed in the evidence. NONLITERAL merges are known findings.",
   technique="Lean 4 refinement proof (dictionary passes vs declarative counts) + differential correspondence + Spec oracle", design="5/C01"),
}
PENDING_REASON = "check not built yet (work in progress; see DESIGN.md section 9 for the build order)"

checks = []
for p in props:
    pid = p["id"]
    if pid in CLAIMED:
        c = CLAIMED[pid]
        checks.append({"property_id": pid, "quick_cmd": "./check %s --tier quick" % pid,
                       "thorough_cmd": "./check %s --tier thorough" % pid,
                       "evidence_file": "evidence/%s.json" % pid,
                       "replay_cmd_template": "./check %s --replay {path}" % pid,
                       "engine": "lean-model",
                       "level_claimed": {"category": "proof", "text": c["text"], "design_ref": c["design"]},
                       "level_note": c["note"], "technique": c["technique"]})
m = {"version": 1,
     "setup_cmd": "python3 harness/extract.py && cd lean && lake build ShexerModel driver specdriver",
     "hooks": {"guard": "SHEXER_VERIF", "enable": "no hooks are needed: every check observes the public API of /repo in-process "
               "(C15 replaces one module attribute of shexer.io.sparql.query from outside)",
               "baseline_off_cmd": "cd /repo && /venv/bin/python -m pytest -ra -q -p no:cacheprovider --timeout=900 --continue-on-collection-errors",
               "source_commits": [], "add_only": True},
     "engines": [{"name": "lean-model", "path": "lean/", "serves_properties": sorted(CLAIMED),
                  "kind_free_text": "Lean 4 model + theorems (lean/ShexerModel), AST extractor (harness/extract.py), differential correspondence through a native line-protocol driver"}],
     "checks": checks,
     "not_applicable": [{"property_id": p["id"], "reason": PENDING_REASON} for p in props if p["id"] not in CLAIMED],
     "notes": "Repairs of genuine defects are unguarded 'fix:' commits in /repo, listed in known_findings.json under 'fixed'."}
json.dump(m, open(os.path.join(HERE, "MANIFEST.json"), "w"), indent=1)
print("claimed", sorted(CLAIMED))
