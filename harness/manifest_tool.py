#!/usr/bin/env python3
"""Regenerates MANIFEST.json from the table below (kept in one place so it is always valid)."""
import json, os
HERE = os.path.dirname(os.path.dirname(os.path.abspath(__file__)))
props = [json.loads(l) for l in open(os.path.join(HERE, "properties.jsonl"))]

CLAIMED = {
 "C20": dict(
   text="Proof: the constructor-time and call-time guards are regenerated from the Python AST on every run and proved equal to the "
        "reference predicate for every argument record (all strings, all presence vectors, all rational thresholds); the later "
        "configuration-only failure points are a hand-written model proved total outside two listed findings. Tie: regeneration + "
        "exhaustive (not sampled) run of the real constructor and first call over ~49 000 argument vectors.",
   note="Trusts Lean's kernel (axioms: propext, Classical.choice, Quot.sound), harness/extract.py, and the abstraction of argument "
        "values to present/absent. The shape-map stage of the constructor and the deferred-failure predicate are modelled by hand "
        "and validated exhaustively against the implementation.",
   technique="Lean 4 proof over AST-generated guard + exhaustive correspondence", design="5/C20"),
 "C01": dict(
   text="Proof (R1): for every graph, configuration and selection of instances, every entry of the class profile - the only source "
        "of the figures on constraint lines and in comments - equals the declarative count (number of selected nodes with exactly k / "
        "at least one value of the stated kind), and every class count equals the number of selected nodes; no entry exceeds the class "
        "count. Tie: ordered correspondence of the canonical shape list between the Lean model and the implementation; every figure the "
        "implementation prints is recomputed by the Lean Spec through the driver (failing-input search).",
   note="Trusts Lean's kernel, harness/extract.py, the ShExC text parser and the correspondence domain (class targets / all classes, "
        "cap, ignored namespaces, inverse paths, all switches). The passage of figures from the profile through the merge stages is "
        "modelled and validated; theorems about it are in Props/C01b.lean when listed in the evidence. NONLITERAL merges are known findings.",
   technique="Lean 4 refinement proof (dictionary passes vs declarative counts) + differential correspondence + Spec oracle", design="5/C01"),
 "C02": dict(
   text="Proof: the threshold test is regenerated from the AST and proved to be n/N >= a/b in exact arithmetic (boundary kept, below dropped, "
        "0 keeps all, 1 keeps universal); candidates are exactly the profile entries that pass it (which are the declarative counts by R1); "
        "the two merge stages neither invent nor lose a constraint key and never yield two constraints for one key (for every input list "
        "and configuration). The non-literal 'iff' is proved in the form the code realises (some node kind passes) and refuted in the "
        "property's form by a kernel-checked witness (finding F-C02-1). Tie: ordered correspondence on every k/n boundary. Search: key set and "
        "shape set of the implementation against Spec.expectedKeys evaluated in Lean.",
   note="Trusts Lean's kernel, extract.py, the ShExC parser. Modelled: merge stages (hand-written, validated by correspondence). Findings "
        "F-C02-1 (kinds thresholded separately), F-C02-2 (reference to a removed empty shape dropped).",
   technique="Lean 4 proofs over AST-generated threshold test + key-set invariants of the merge stages + correspondence + Lean Spec oracle", design="5/C02"),
 "C12": dict(
   text="Proof: the profile does not depend on the threshold (rfl); for t1 <= t2 the candidates at t2 are the candidates at t1 filtered - same "
        "order, same figures; constraint keys after the merge stages are monotone; at 0 every entry is a candidate, at 1 only entries of all "
        "instances. Tie: ordered correspondence at every threshold of the grid. Search: inclusions of keys/shapes/figures between fresh "
        "implementation runs for all ordered threshold pairs, endpoints against the Lean Spec keys.",
   note="Trusts Lean's kernel, extract.py (threshold operator), parser. Shape-level monotonicity through the removal of empty shapes is validated, "
        "not proved (finding F-C02-2 lives there).",
   technique="Lean 4 proof (antitone filter, key-set invariants) + metamorphic search over threshold pairs", design="5/C12"),
 "C13": dict(
   text="Proof: the relaxation pass is 'sort, then rewrite each statement alone' and never touches property, types, direction, count; run-level "
        "equations: disable_comments = erase comments; disable_exact_cardinality = map {k>1}->+ ; all_instances_are_compliant_mode = map relax "
        "(identity at 100 %, else own figure as comment and ?/*); '?' only from allow_opt and cardinality exactly 1; mode off changes no "
        "cardinality. Presentation options are not inputs of the model at all; the correspondence varies them. Search: pairs of fresh runs "
        "differing in one of 10 options; every ratio text against the exact n/N; file vs string on a 9000-line result.",
   note="Trusts Lean's kernel, extract.py (relax/generalize/cardinality_representation regenerated), parser. Float formatting is validated "
        "against exact rationals, not modelled. Findings F-C13-1 (decimals=0 truncates; pinned by a golden file), F-C05-2.",
   technique="Lean 4 proofs of run-level option equations + one-factor metamorphic search", design="5/C13"),
 "C14": dict(
   text="Proof (counting level): selection, instance counts and every outgoing count are identical with and without inverse_paths; no incoming "
        "feature exists without the option; the incoming count of a node equals its outgoing count in the graph with the non-literal triples "
        "reversed (IRI subjects). Tie: ordered correspondence with the option on and off. Search: three fresh runs per graph (G+inverse, G, "
        "reverse(G)) and every incoming figure against the Lean Spec.",
   note="Trusts Lean's kernel, parser. The passage from counts to constraint lists is the shared merge-stage model (validated by correspondence); "
        "blank-node subjects are compared through the Spec only.",
   technique="Lean 4 proof (counts of reversed graph) + metamorphic search + Lean Spec oracle", design="5/C14"),
 "C16": dict(
   text="Proof: namespaces_to_ignore is exactly the feature pass on the filtered document while the selection reads the full graph; filter = "
        "direct-child test, union over nested namespaces, order-irrelevant, deeper predicates kept; instances_cap=k selects exactly what no cap "
        "selects on the document without the (k+1)-th.. instantiation triples of each class, including the early stop of the target-classes "
        "variant; a cap no class reaches changes nothing; figures are exact for any selection (R1). Tie: ordered correspondence with caps and "
        "namespace sets varied; the filter function itself is regenerated from the Python AST (loop included) and proved equal to the model's "
        "test for every property and namespace list. Search: option vs filtered document; caps 1..max+1; capped figures against the Lean Spec.",
   note="Trusts Lean's kernel, parser. Cap theorem proved for pairwise distinct target classes (hypothesis unused by the proof but kept).",
   technique="Lean 4 proof (fold invariant with pigeonhole for the early stop) + metamorphic search + Lean Spec oracle", design="5/C16"),
 "C03": dict(
   text="Proof (all graphs): a constraint that stays unrelaxed stands at 100 %, and by the end-to-end exactness theorem its figure is the "
        "declarative count, so every instance has exactly k / at least one value of that type; relaxed constraints are '*' (always respected) "
        "or '?', and '?' arises only from cardinality exactly 1 with allow_opt_cardinality; with the mode off no cardinality is rewritten. The "
        "ShEx semantics of the emitted fragment is a Lean definition (Spec/ShExSem.lean); the full conformance statement on the strict domain "
        "is stated and validated, not proved; its failure outside the domain is kernel-checked on three witnesses (one per root cause). Tie: "
        "ordered correspondence on the schema-consistent generator x switches x {direct, inverse}. Search: the Lean validator and an independent "
        "Python validator (cross-checked against each other) run on the implementation's own output for every (instance, shape) pair.",
   note="Trusts Lean's kernel, extract.py, parser. Value-matching half of conformance (homogeneity through the node-kind merge) and soundness of "
        "'?' are validated only. Findings F-C03-1..4, F-C01-1 outside the strict domain.",
   technique="Lean 4 proof of the cardinality half via C01b + executable ShEx semantics as oracle", design="5/C03"),
 "C09": dict(
   text="Proof: the declarative counts and class sizes are invariant under permutation of the document; hence (R1) every entry of the class "
        "profile and every class count - the source of every printed figure - is identical for a document and any permutation of it; the "
        "selected nodes are the same set. Tie: ordered correspondence on original, permuted and relabelled documents. Search: two fresh "
        "implementation runs per variant: shapes, instance counts, keys and every individual figure must agree always; the set of printed facts "
        "and the chosen constraints whenever no alternatives tie.",
   note="Trusts Lean's kernel, parser. Blank-node relabelling and the tie-free equality of choices are validated, not proved. Finding F-C09-1 "
        "(ties decided by dictionary order).",
   technique="Lean 4 proof (permutation invariance of counts + R1) + metamorphic search", design="5/C09"),
 "C10": dict(
   text="Proof: for class targets / all-classes mode pass 1 equals the declarative selection as a list (subjects linked to a target class by the "
        "configured instantiation property, first-occurrence order, classes in document order); only the configured instantiation property "
        "selects; rdf:type is an ordinary property otherwise; node selectors denote the single node, {FOCUS p o} / {s p FOCUS} exactly the "
        "subjects / objects of the matching triples, a node returned several times gets its label once; figures are exact for whatever the "
        "selectors denote (R1 is parametric in the selection). Tie: Targets.resolve vs the implementation's instance dictionary; Shexer.runSel "
        "vs the output. Search: selectors evaluated directly on the abstract triples; every printed figure recomputed by the Lean Spec.",
   note="Trusts Lean's kernel, parser. String-level selector/label parsers are modelled and tested (#guard), FOCUS evaluation is rdflib's SPARQL "
        "engine in the implementation (row order unspecified: the shapes are compared for the implementation's own dictionary order). SPARQL "
        "selectors are restricted to single-pattern queries. Finding F-C10-2 (blank-node answers carry rdflib-internal labels).",
   technique="Lean 4 proof (selection = declarative selection; selector denotations) + differential correspondence + Lean Spec oracle", design="5/C10"),
 "C11": dict(
   text="Proof: min/max counts (regenerated from the AST) equal the interval of the ShExC cardinality for every cardinality; no closure symbol is "
        "ever written as a count; the node-kind table (regenerated) maps IRI/BNode/NONLITERAL to sh:IRI/sh:BlankNode/sh:BlankNodeOrIRI; one node "
        "shape per shape with the same IRI and target class, one property shape per constraint with the same predicate, in order; direction "
        "and counts preserved. Tie: Shacl.emit vs the parsed SHACL Turtle. Search: the two serialisations of one Shaper compared per shape as "
        "multisets of (direction, predicate, restriction, min, max).",
   note="Trusts Lean's kernel, extract.py, rdflib as Turtle parser/serialiser. Finding F-C05-3 (rdflib omits '@prefix rdf:' when rdf:type is "
        "a path object).",
   technique="Lean 4 proof over AST-generated tables + differential correspondence + cross-serialisation oracle", design="5/C11"),
 "C05": dict(
   text="Proof: the shapes prefix is fresh with respect to the configured prefixes and the first free candidate; the prefix map is functional; "
        "every prefix used by a shortened term is declared; labels are a function of the class; no class gets two shapes; every shape "
        "reference names a shape of the final list also after remove_empty_shapes (under the hypothesis that no datatype of the document itself "
        "begins with the reference marker; the list-level statement without the inverse-direction hypothesis is refuted by a kernel-checked "
        "witness); with remove_empty_shapes no empty shape is left. Tie: Text model (prefix block, labels, tokens) vs the emitted ShExC token by "
        "token. Search: strict ShExC parse, prefix declarations, label uniqueness, reference closure and SHACL Turtle parse of every output.",
   note="Trusts Lean's kernel, the strict ShExC parser of the harness, rdflib as Turtle parser. Findings F-C05-1 (same local name in two "
        "namespaces), F-C05-2, F-C05-3.",
   technique="Lean 4 proof (prefix freshness, reference closure by invariant through both passes and the merge stages) + differential correspondence + strict-parse search",
   design="5/C05"),
 "C17": dict(
   text="Proof: the stem is a prefix of every instance IRI of the shape, ends at ':', '/' or '#', is at least as long as every "
        "separator-terminated common prefix, has >= 3 characters and is not http:// or https://; a stem implies an instance; the shape example "
        "is an instance; the constraint example is the value of a triple with that property, in that direction, on an instance of the shape - "
        "for every document and configuration (induction over the longest-common-prefix fold with a relational invariant). The options are not "
        "inputs of the model's constraint pipeline. Tie: MinIri.stem / shapeExample / constraintExample vs the '[<stem>~] AND', sh:pattern and "
        "'// rdfs:comment' annotations; longest_common_prefix and _determine_suitable_iri_pattern are regenerated from the Python AST and proved "
        "equal to the model's lcp / suitable for every input. Search: stems and examples of the implementation checked directly against the instance IRIs and triples; "
        "output with and without the options compared constraint by constraint.",
   note="Trusts Lean's kernel, the ShExC / SHACL parsers of the harness. Finding F-C17-1 (an IRI-valued example is shortened and then quoted).",
   technique="Lean 4 proof (fold invariant, prefix order) + differential correspondence + direct oracle", design="5/C17"),
 "C04": dict(
   text="Proof: MergeableConstraints.merge_group modelled with Python's failure modes explicit (optional slots, [0] on lists, short-circuit "
        "order, Except monad): for every non-empty group of node-kind constraints and every OR configuration it never raises and returns exactly "
        "the value of the total function the pipeline model uses; the call site always passes a non-empty group; a kernel-checked witness shows "
        "that the variant without the length guard does raise; the subscripted increments of the counting passes (pass 2 per triple, class "
        "profile per tuple, class counts) modelled with KeyError never raise and equal the defaulting updates of the pipeline model (witness: "
        "the seeded lazy creation of counters does raise). The output-parameter guard and the SHACL macro table are regenerated from the AST "
        "(C20, C11). Tie: (a) the implementation's merge_group run in-process on every small group (exhaustive, both insertion orders, three OR "
        "configurations) vs MergeE.mergeGroupE; (b) Shexer.run vs output. Search: adversarial graphs x accepted configurations x {ShExC, SHACL} x "
        "{shex_graph, profile_graph} x six input syntaxes x shape maps; any exception or hang is the failing input.",
   note="Trusts Lean's kernel, extract.py, harness. The merge stage and the counting updates carry safety theorems; parsers, serialisers and "
        "rdflib are covered by the crash search and the correspondence (partial). Findings F-C20-1, F-C20-3 (configurations accepted and "
        "failing at the first call).",
   technique="Lean 4 proof (failure-aware model refines to the total model) + exhaustive unit correspondence + crash search", design="5/C04"),
 "C06": dict(
   text="Proof: a Lean model of the line tokenizer, token classification and datatype decision of NtTriplesYielder, and a grammar of the "
        "documents in scope (statement = subject IRI/bnode, predicate IRI, object IRI/bnode/literal whose lexical form is ANY sequence of plain "
        "characters and escape pairs + none/@lang/^^<datatype>; layout = blanks before/between tokens, blanks or nothing before the dot, blanks "
        "or a comment after it). Theorem: every rendered line parses to exactly the statement's triple (kinds, IRIs, labels, xsd:string / "
        "rdf:langString / the datatype), no exception, not an error line; a document yields its triples in order with zero error lines - for "
        "all lexical forms, unbounded. The tokenizer (seven methods with `while` loops), tune_token / tune_prop, parse_literal, remove_corners and "
        "decide_literal_type are REGENERATED from the Python source on every run and proved equal to the model's functions for every input "
        "(Props/GenStrNtTok, GenStrTune2, GenStrCorners, GenStrLiteral), so the reader assembled from the regenerated functions is Nt.parseLine "
        "for every line and reads every valid statement as its triple (Props/GenNtReader); on lines where the model has no answer the regenerated "
        "loop exhausts any fuel. Tie: Nt.parseLine vs NtTriplesYielder on every generated line; the translator itself against CPython and the real "
        "functions (strcheck). Search: line rendered from a statement, "
        "read by the real reader, compared with the statement; exhaustive over all contents of <= 2 (quick) / 3 (thorough) atoms of a 24-atom "
        "adversarial alphabet x 12 suffix forms, random beyond; generator cross-checked with rdflib's N-Triples parser.",
   note="Trusts Lean's kernel, the translator extract_str.py + Base/PyOps.lean (tied by strcheck), the five lines of generator glue of yield_triples "
        "and the hand-written model (tied by correspondence), the generator. str.isnumeric is modelled for ASCII digits only; "
        "line splitting of the raw string / file is outside the model (covered by the search: U+000C, U+0085, U+2028, U+001D inside literals). "
        "Four defects repaired (see known_findings.json 'fixed').",
   technique="Lean 4 proof (parser round trip by induction over the lexical form and the layout; regenerated index-based tokenizer refined to the suffix-based model) + differential correspondence + exhaustive small-scope search",
   design="5/C06"),
 "C18": dict(
   text="Proof: the Shaper with its three memoised stages (instance dictionary, profile, shapes keyed by their threshold) as a state "
        "machine: for every sequence of earlier calls (any length, shex_graph in both formats with any thresholds, profile_graph) a call "
        "computes exactly what it computes on a fresh Shaper, which is the pipeline Shexer.run at the call's own threshold (invariant by "
        "induction over the call list); the serializers' line buffer writes every line exactly once and in order for every capacity and every "
        "number of lines (so the 5000-line flush boundaries lose or repeat nothing, on either channel); a kernel-checked witness shows that the "
        "code before the repair (shapes memoised without their threshold) does not have the property. Tie: History.step vs the implementation "
        "call by call. Search: all sequences of length <= 2 and a sample (thorough: all) of length 3 over 14 operations, each call compared with "
        "a fresh Shaper; file vs string; outputs of 5 000 - 18 000 lines; Shapers sharing the caller's dictionary.",
   note="Trusts Lean's kernel, harness. Channel equality (file vs string) and Shaper-to-Shaper isolation are validated by the search, the model "
        "has one writer. Four defects repaired (threshold ignored, 'sh:' prefix leaking into ShExC, duplicated examples, None stem).",
   technique="Lean 4 proof (refinement of the memoising object to the pure pipeline; buffer invariant) + differential correspondence + exhaustive short call sequences",
   design="5/C18"),
 "C19": dict(
   text="Proof (of what the model can carry): the set of empty shapes is only asked for membership - a removal round gives the same shapes for "
        "any two collections with the same members, hence for every iteration order of the set; the random branch of the shapes-prefix choice "
        "is reachable only when all four default prefixes are taken; every count and class size is invariant under permutation of the "
        "arriving triples (node lists that pass through a set, hash-ordered iteration). Tie: ordered comparison of implementation and model on "
        "the NT channel. Search: every job (8 delivery channels incl. the in-process fake endpoint, class targets / all classes / shape maps "
        "with FOCUS and SPARQL selectors, 0-3 default prefixes taken) run in 4 (thorough: 12) fresh interpreter processes with different "
        "PYTHONHASHSEED; ShExC compared byte for byte, SHACL as canonical graphs, number of endpoint queries.",
   note="Partial: determinism of the interpreter (hash order of sets / rdflib stores) is runtime behaviour that the model cannot exhibit; the "
        "theorems show the model's result cannot depend on it, the subprocess search decides the implementation. Finding F-C19-1 (rdflib's random "
        "blank-node identifiers). One defect repaired (hash-ordered iteration of rdflib graphs).",
   technique="Lean 4 proof (order-independence lemmas, prefix choice) + differential correspondence + multi-process replay under different hash seeds",
   design="5/C19"),
 "C07": dict(
   text="Proof: a Lean model of BigTtlTriplesYielder (line cleaning, comment stripping, tokenizer, the s/p/o state machine persisting across lines, "
        "prefix / base handling, final classification) and the dialect as data: statement groups with ';' and ',' whose terms are <absolute>, "
        "<relative>, pre:local, 'a', _:label, plain / language-tagged / datatyped (as <IRI> or with any declared prefix) literals and untyped "
        "integers; the token stream is cut into physical lines at ARBITRARY token boundaries, with arbitrary runs of blanks, trailing comments, "
        "empty and comment lines. Theorem: the reader yields exactly the triples of the groups (node kinds, expanded IRIs, labels, datatypes), in "
        "order, raises nothing, and returns to the waiting-for-subject state - unbounded in groups, lines and content (1900 lines of agent-written, "
        "kernel-checked lemmas). Regenerated from the Python source on every run and proved equal to the model's functions for every input: "
        "_clean_line, _remove_comments_if_needed, _next_line_token with its quote / blank scans (counting backslashes backwards = skipping escape "
        "pairs forwards), _parse_elem, _parse_cornered_element, _expand_prefixed_datatype_if_needed, tune_subj / tune_prop / tune_token "
        "(Props/GenStrTtlScan, GenStrTtlTok, GenStrTune2); the directive bookkeeping and the state machine across tokens stay hand-modelled. "
        "Tie: Ttl.readLines vs the implementation on every generated document, exception classes included; the translator against CPython. Search: "
        "layout generator + every line-break placement of small documents, compared with the abstract triples and with rdflib; 14 families of "
        "documents outside the dialect must raise or agree with rdflib.",
   note="Trusts Lean's kernel, the hand-written model (tied by correspondence), urljoin as the parameter `resolve` with the stated hypotheses, float() "
        "acceptance as isNum. The theorem assumes literal content without tab / CR / runs of blanks (the reader normalises those inside literals: "
        "lexical form changes, datatype does not; correspondence only). Seven defects repaired.",
   technique="Lean 4 proof (tokenizer + state-machine refinement to the statement-group semantics, by induction over lines and groups) + differential correspondence + bounded-exhaustive layout search",
   design="5/C07"),
 "C08": dict(
   text="Proof: the TSV reader and the N-Triples reader yield the same triple - the triple of the statement - for every statement and lexical form "
        "(no raw tab); the multi-source reader yields the triples of its sources one after the other (any reader) and, for N-Triples files, "
        "exactly the triples of all statements for every partition into files; every count and class size computed from the concatenation is "
        "invariant under any other partition / order of the same statements (permutation invariance); with C06 and C07 the three hand-written "
        "readers are proved against one term model; the TSV and N-Triples readers assembled from functions regenerated from the Python source "
        "are Tsv.parseLine / Nt.parseLine for every line (Props/GenTsvReader, GenNtReader). Tie: Tsv.parseLine vs TsvNtTriplesYielder line by line; "
        "pipeline on the reference channel. "
        "Search: each graph delivered through 30 channels (7 formats as file and raw string, rdflib Graph, file:// URL, lists of 2-4 files with "
        "an arbitrary partition, gz / xz, zip with flat and nested members, lists of zips) and compared with the raw N-Triples run.",
   note="Trusts Lean's kernel, harness. rdflib's parsers, decompression and URL fetching are byte transport outside the model (partial): covered by "
        "the search only. Finding F-C19-1 (rdflib relabels blank nodes per parse). Two defects repaired.",
   technique="Lean 4 proof (reader agreement, concatenation, permutation invariance) + differential correspondence + cross-channel search",
   design="5/C08"),
 "C15": dict(
   text="Proof: EndpointSGraph as three kinds of request over a served set of triples, the per-node cache as a state machine, and the depth-1 "
        "neighbourhood fetch. Theorems: for every disciplined run of requests each cached answer has exactly the endpoint's rows (so "
        "disable_endpoint_cache cannot change a result); the cached run never sends more queries than the uncached one (every run), a repeated "
        "request costs nothing; the fetch's own requests are disciplined (a kernel-checked witness shows an undisciplined run does return a "
        "truncated neighbourhood); for a selection among the target nodes every count computed from the fetched triples equals the count "
        "computed from the whole graph, in both directions (hence every figure, by R1). Tie: the model's request list and query count vs the "
        "implementation's query log, cache on and off. Search: endpoint run (cache on / off) vs local run of the same graph on an in-process "
        "SPARQL evaluator substituted for the HTTP client; class targets, all classes, shape maps, inverse paths, instances_cap.",
   note="Partial: the SPARQL JSON result reader (keeps no datatype), HTTP and retries are runtime behaviour outside the model; the fake endpoint "
        "replaces only the HTTP call. Findings F-C02-2 / F-C09-1 (order-dependent ties), F-C05-1 (duplicate labels). Two defects repaired.",
   technique="Lean 4 proof (cache refinement with invariant; neighbourhood sufficiency via permutation invariance) + query-log correspondence + endpoint-vs-local search",
   design="5/C15"),
}
PENDING_REASON = "check not built yet (work in progress; see DESIGN.md section 9 for the build order)"

checks = []
for p in props:
    pid = p["id"]
    if pid in CLAIMED:
        c = CLAIMED[pid]
        checks.append({"property_id": pid, "quick_cmd": "./check %s --tier quick" % pid,
                       "thorough_cmd": "./check %s --tier thorough" % pid,
                       "evidence_file": "evidence/%s.json" % pid,
                       "replay_cmd_template": "./check %s --replay {path}" % pid,
                       "engine": "lean-model",
                       "level_claimed": {"category": "proof", "text": c["text"], "design_ref": c["design"]},
                       "level_note": c["note"], "technique": c["technique"]})
m = {"version": 1,
     "setup_cmd": "python3 harness/extract.py && cd lean && (lake build ShexerModel driver specdriver strdriver $(ls ShexerModel/Props/*.lean | sed 's#/#.#g; s#\\.lean$##') || echo 'setup: a target did not build against the current /repo; every check rebuilds what it needs and reports it')",
     "hooks": {"guard": "SHEXER_VERIF", "enable": "no hooks are needed: every check observes the public API of /repo in-process "
               "(C15 replaces one module attribute of shexer.io.sparql.query from outside)",
               "baseline_off_cmd": "cd /repo && /venv/bin/python -m pytest -ra -q -p no:cacheprovider --timeout=900 --continue-on-collection-errors",
               "source_commits": [], "add_only": True},
     "engines": [{"name": "lean-model", "path": "lean/", "serves_properties": sorted(CLAIMED),
                  "kind_free_text": "Lean 4 model + theorems (lean/ShexerModel), AST extractor (harness/extract.py), differential correspondence through a native line-protocol driver"}],
     "checks": checks,
     "not_applicable": [{"property_id": p["id"], "reason": PENDING_REASON} for p in props if p["id"] not in CLAIMED],
     "notes": "Repairs of genuine defects are unguarded 'fix:' commits in /repo, listed in known_findings.json under 'fixed'."}
json.dump(m, open(os.path.join(HERE, "MANIFEST.json"), "w"), indent=1)
print("claimed", sorted(CLAIMED))
