"""Runs the extraction jobs of a job file in this interpreter process (whose PYTHONHASHSEED the parent chose) and prints
one JSON object: job id -> ShExC text / canonical SHACL / exception."""
import sys, json, os, warnings
warnings.filterwarnings("ignore")
sys.path.insert(0, os.path.dirname(os.path.abspath(__file__)))
sys.path.insert(0, os.environ.get('SHEXER_REPO', '/repo'))
import rdflib
from rdflib.compare import to_canonical_graph
from shexer.shaper import Shaper
from shexer import consts as C
import fake_endpoint as FE

FMT = {'nt': C.NT, 'turtle': C.TURTLE, 'xml': C.RDF_XML, 'json-ld': C.JSON_LD, 'n3': C.N3, 'turtle_iter': C.TURTLE_ITER, 'tsv': C.TSV_SPO}


def run_job(job):
    kw = dict(job['kwargs'])
    for k in ('instances_report_mode',):
        pass
    d = job['delivery']
    out = {}
    def build():
        if d['kind'] == 'text':
            return Shaper(raw_graph=d['text'], input_format=FMT[d['format']], **kw)
        if d['kind'] == 'graph':
            g = rdflib.Graph()
            g.parse(data=d['text'], format='nt')
            return Shaper(rdflib_graph=g, **kw)
        if d['kind'] == 'files':
            return Shaper(graph_list_of_files_input=list(d['paths']), input_format=C.NT, **kw)
        raise ValueError(d['kind'])
    try:
        if d['kind'] == 'endpoint':
            with FE.serving(d['text']) as fe:
                sh = Shaper(url_endpoint=FE.URL, **kw)
                out['shex'] = sh.shex_graph(string_output=True, acceptance_threshold=job['th'])
                out['queries'] = len(fe.queries)
            with FE.serving(d['text']) as fe:
                t = Shaper(url_endpoint=FE.URL, **kw).shex_graph(string_output=True, acceptance_threshold=job['th'], output_format=C.SHACL_TURTLE)
        else:
            out['shex'] = build().shex_graph(string_output=True, acceptance_threshold=job['th'])
            t = build().shex_graph(string_output=True, acceptance_threshold=job['th'], output_format=C.SHACL_TURTLE)
        g = rdflib.Graph()
        g.parse(data=t, format='turtle')
        out['shacl'] = sorted(" ".join(x.n3() for x in tr) for tr in to_canonical_graph(g))
    except Exception as e:
        out['exc'] = "%s: %s" % (type(e).__name__, str(e)[:160])
    return out


if __name__ == '__main__':
    jobs = json.load(open(sys.argv[1]))
    print(json.dumps({j['id']: run_job(j) for j in jobs}))
