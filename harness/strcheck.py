"""Correspondence check of the extractor's fragment S itself (translator + Base/PyOps.lean).

`lean/StrMain.lean` (`strdriver`) evaluates
  * the Python-string primitives of `Base/PyOps.lean` (find, rfind, slices, startswith, endswith, in, strip), and
  * the functions the extractor regenerated into `GeneratedStr.lean` from /repo's Python AST,
on the same arguments as CPython's `str` methods and the real functions of /repo.  A disagreement means the translator or
a primitive misrepresents Python - the generated definitions (and the theorems about them) would then be about something
else than the code.  It says nothing about a property by itself: the generated function is regenerated from whatever the
code says now, so a change of the code moves both sides.

Used by C05 (shape name) and C06 / C07 / C08 (corners, literal type): `run(ctx, rng, n)` -> (cases, disagreements, stats).
"""
import os, subprocess, importlib
from common import *

LEAN = os.path.join(VERIF, "lean")
STRDRIVER = os.path.join(LEAN, ".lake", "build", "bin", "strdriver")

PIECES = ['"', '"', '@', '^^', '<', '>', '^^<', '^^xsd:', '^^rdf:', '^^dt:', '^^geo:', '^^ex:', '#', '/', '%', ':', 'a', 'b', 'en', 'integer',
          ' ', '\t', '\n', '\x0b', '\x0c', '\r', '\x1c', '\x1f', '\x85', '\xa0', ' ', ' ', ' ', ' ', ' ', ' ',
          '　', '​', '﻿', 'http://example.org/', 'http://example.org/ns#', 'é', '\U0001f600', '.', '_:', '\\', "'"]
SMALL = ['a', 'b', '"', '/', '#', ' ', '<', '>']


def enc(s):
    return ",".join(str(ord(c)) for c in s) if s else "-"


def dec(t):
    return "" if t == "-" else "".join(chr(int(x)) for x in t.split(","))


def build():
    p = subprocess.run(["lake", "build", "strdriver"], cwd=LEAN, capture_output=True, text=True)
    return p.returncode == 0, (p.stdout + p.stderr)[-1500:]


def rstr(rng, pieces, lo, hi):
    return "".join(rng.choice(pieces) for _ in range(rng.randint(lo, hi)))


def gen_primitive(rng):
    op = rng.choice(['find', 'rfind', 'slice', 'startswith', 'endswith', 'in', 'strip'])
    a = rstr(rng, SMALL if rng.random() < 0.7 else PIECES, 0, 7)
    b = rstr(rng, SMALL, 0, 2) if rng.random() < 0.8 else a[rng.randint(0, len(a)):][:rng.randint(0, 3)]
    if op == 'slice':
        i = rng.choice([None] + list(range(-9, 10)))
        j = rng.choice([None] + list(range(-9, 10)))
        return ("slice %s %s %s" % (enc(a), 'N' if i is None else i, 'N' if j is None else j)), ('str', a[i:j])
    if op == 'find':
        return "find %s %s" % (enc(a), enc(b)), ('int', a.find(b))
    if op == 'rfind':
        return "rfind %s %s" % (enc(a), enc(b)), ('int', a.rfind(b))
    if op == 'startswith':
        return "startswith %s %s" % (enc(a), enc(b)), ('bool', a.startswith(b))
    if op == 'endswith':
        return "endswith %s %s" % (enc(a), enc(b)), ('bool', a.endswith(b))
    if op == 'in':
        return "in %s %s" % (enc(b), enc(a)), ('bool', b in a)
    a = rstr(rng, PIECES, 0, 6)
    return "strip %s" % enc(a), ('str', a.strip())


def _stub(base, rel):
    return "[" + base + "|" + rel + "]"


def impl_functions():
    """the real functions of /repo, with urljoin replaced by the stub the driver uses"""
    uri = importlib.import_module("shexer.utils.uri")
    shapes = importlib.import_module("shexer.utils.shapes")
    l2s = importlib.import_module("shexer.utils.translators.list_of_classes_to_shape_map")
    fs = {}
    fs['remove_corners'] = lambda strs, flag, opt: uri.remove_corners(strs[0], raise_error_if_no_corners=flag)

    def dlt(strs, flag, opt):
        saved = uri.urljoin
        uri.urljoin = _stub
        try:
            return uri.decide_literal_type(strs[0], opt)
        finally:
            uri.urljoin = saved
    fs['decide_literal_type'] = dlt
    fs['build_shapes_name_for_class_uri'] = lambda strs, flag, opt: shapes.build_shapes_name_for_class_uri(strs[0], strs[1])
    fs['longest_common_prefix'] = lambda strs, flag, opt: uri.longest_common_prefix(strs[0], strs[1])
    mi = importlib.import_module("shexer.core.shexing.strategy.minimal_iri_strategy.annotate_min_iri_strategy")
    fs['determine_suitable_iri_pattern'] = lambda strs, flag, opt: mi.AnnotateMinIriStrategy._determine_suitable_iri_pattern(None, opt)
    ty = importlib.import_module("shexer.utils.triple_yielders")
    fs['check_if_property_belongs_to_namespace_list'] = lambda strs, flag, opt: "1" if ty.check_if_property_belongs_to_namespace_list(strs[0], strs[1:]) else "0"
    bs = importlib.import_module("shexer.io.shex.formater.statement_serializers.base_statement_serializer")
    fs['serializer_prefixize_uri_if_possible'] = lambda strs, flag, opt: bs.BaseStatementSerializer._prefixize_uri_if_possible(
        strs[0], dict(zip(strs[1::2], strs[2::2])))
    fs['get_shape_label_for_class_uri'] = lambda strs, flag, opt: l2s.ListOfClassesToShapeMap._get_shape_label_for_class_uri(None, strs[0])
    fs['add_corners'] = lambda strs, flag, opt: uri.add_corners(strs[0])
    fs['add_corners_if_needed'] = lambda strs, flag, opt: uri.add_corners_if_needed(strs[0])
    fs['add_corners_if_it_is_an_uri'] = lambda strs, flag, opt: uri.add_corners_if_it_is_an_uri(strs[0])
    fs['there_is_arroba_after_last_quotes'] = lambda strs, flag, opt: "1" if uri.there_is_arroba_after_last_quotes(strs[0]) else "0"
    fs['unprefixize_uri_if_possible'] = lambda strs, flag, opt: uri.unprefixize_uri_if_possible(strs[0], dict(zip(strs[1::2], strs[2::2])), flag)
    fs['unprefixize_uri_mandatory'] = lambda strs, flag, opt: uri.unprefixize_uri_mandatory(strs[0], dict(zip(strs[1::2], strs[2::2])), flag)
    fs['prefixize_uri_if_possible'] = lambda strs, flag, opt: uri.prefixize_uri_if_possible(strs[0], dict(zip(strs[1::2], strs[2::2])), flag)
    fs['prefixize_shape_name_if_possible'] = lambda strs, flag, opt: shapes.prefixize_shape_name_if_possible(strs[0], dict(zip(strs[1::2], strs[2::2])))
    fs['serializer_tune_token'] = lambda strs, flag, opt: bs.BaseStatementSerializer.tune_token(strs[0], dict(zip(strs[1::2], strs[2::2])))

    def sote(strs, flag, opt):
        ser = bs.BaseStatementSerializer(instantiation_property_str=strs[0], frequency_serializer=None, disable_comments=True)
        return ser.str_of_target_element(strs[1], strs[2], dict(zip(strs[3::2], strs[4::2])))
    fs['serializer_str_of_target_element'] = sote
    lp = importlib.import_module("shexer.io.shape_map.label.shape_map_label_parser")
    mk = lambda strs: lp.ShapeMapLabelParser(prefix_namespaces_dict=dict(zip(strs[1::2], strs[2::2])))
    fs['label_is_a_prefixed_uri'] = lambda strs, flag, opt: "1" if mk(strs)._is_a_prefixed_uri(strs[0]) else "0"
    fs['label_parse_prefixed_label'] = lambda strs, flag, opt: mk(strs)._parse_prefixed_label(strs[0])
    fs['parse_shape_map_label'] = lambda strs, flag, opt: mk(strs).parse_shape_map_label(strs[0])
    nt = importlib.import_module("shexer.io.graph.yielder.nt_triples_yielder")
    y = nt.NtTriplesYielder(raw_graph="")
    for meth in ('_look_for_index_of_closing_quotes', '_look_for_last_index_before_blank', '_look_for_last_index_of_uri_token', '_look_for_last_index_of_bnode_token',
                 '_look_for_last_index_of_unlabelled_number_token', '_look_for_last_index_of_literal_token'):
        fs['nt' + meth] = (lambda m: lambda strs, flag, opt, num=0: str(_bounded(getattr(y, m), strs[0], num)))(meth)
    fs['nt_look_for_tokens'] = lambda strs, flag, opt, num=0: "".join(t + "\x01" for t in _bounded(y._look_for_tokens, strs[0]))
    def show_obj(o):
        k = type(o).__name__
        if k == 'Literal':
            return 'L' + str(o) + "\x01" + o.elem_type
        return {'IRI': 'I', 'BNode': 'B', 'Property': 'P'}[k] + str(o)

    def with_stub(f):
        def g(strs, flag, opt, num=0):
            saved = uri.urljoin
            uri.urljoin = _stub
            try:
                return f(strs, flag, opt, num)
            finally:
                uri.urljoin = saved
        return g
    fs['parse_literal'] = with_stub(lambda strs, flag, opt, num: "\x01".join(uri.parse_literal(strs[0], opt)))
    fs['parse_unquoted_literal'] = with_stub(lambda strs, flag, opt, num: "\x01".join(uri.parse_unquoted_literal(strs[0])))
    fs['tune_subj'] = lambda strs, flag, opt, num=0: show_obj(ty.tune_subj(strs[0], raise_error_if_no_corners=flag))
    fs['tune_prop'] = lambda strs, flag, opt, num=0: show_obj(ty.tune_prop(strs[0], raise_error_if_no_corners=flag))
    fs['tune_token'] = with_stub(lambda strs, flag, opt, num: show_obj(ty.tune_token(strs[0], allow_untyped_numbers=flag, raise_error_if_no_corners=(num != 0),
                                                                                     base_namespace=opt)))
    tsv = importlib.import_module("shexer.io.graph.yielder.tsv_nt_triples_yielder")
    fs['tsv_look_for_tokens'] = lambda strs, flag, opt, num=0: "".join(t + "\x01" for t in tsv.TsvNtTriplesYielder._look_for_tokens(None, strs[0]))
    tt = importlib.import_module("shexer.io.graph.yielder.big_ttl_triples_yielder")
    ty_ = tt.BigTtlTriplesYielder(raw_graph="")
    fs['ttl_remove_comments_if_needed'] = lambda strs, flag, opt, num=0: _bounded(ty_._remove_comments_if_needed, strs[0])
    for meth in ('_find_next_blank', '_count_prior_backslashes', '_find_next_unescaped_quotes', '_find_next_quoted_literal_ending'):
        fs['ttl' + meth] = (lambda m: lambda strs, flag, opt, num=0: str(_bounded(getattr(ty_, m), strs[0], num)))(meth)

    def cornered(strs, flag, opt, num=0):
        saved = tt.urljoin
        tt.urljoin = _stub
        ty_._base = opt
        try:
            return ty_._parse_cornered_element(strs[0])
        finally:
            tt.urljoin = saved
            ty_._base = None
    fs['ttl_parse_cornered_element'] = cornered

    def next_tok(strs, flag, opt, num=0):
        saved = tt.urljoin
        tt.urljoin = _stub
        ty_._base = opt
        try:
            tok, idx = _bounded(ty_._next_line_token, strs[0], num)
            return None if tok is None else tok + "\x01" + str(idx)
        finally:
            tt.urljoin = saved
            ty_._base = None
    fs['ttl_next_line_token'] = next_tok

    fs['ttl_clean_line'] = lambda strs, flag, opt, num=0: _bounded(ty_._clean_line, strs[0])
    fs['ttl_is_num_literal'] = lambda strs, flag, opt, num=0: "1" if ty_._is_num_literal(strs[0]) else "0"

    def parse_elem(strs, flag, opt, num=0):
        saved = tt.urljoin
        tt.urljoin = _stub
        ty_._base = opt
        ty_._prefixes = dict(zip(strs[1::2], strs[2::2]))
        try:
            return ty_._parse_elem(strs[0])
        finally:
            tt.urljoin = saved
            ty_._base = None
            ty_._prefixes = {}
    fs['ttl_parse_elem'] = parse_elem

    def prefix_line(strs, flag, opt, num=0):
        ty_._prefixes = {}
        try:
            ty_._process_prefix_line(strs[0])
            (k_, v_), = ty_._prefixes.items()
            return k_ + "\x01" + v_
        finally:
            ty_._prefixes = {}
    fs['ttl_process_prefix_line'] = prefix_line

    def base_line(strs, flag, opt, num=0):
        ty_._base = None
        try:
            ty_._process_base_line(strs[0])
            return ty_._base
        finally:
            ty_._base = None
    fs['ttl_process_base_line'] = base_line
    fs['ttl_check_directive_alone_in_its_line'] = lambda strs, flag, opt, num=0: (ty_._check_directive_alone_in_its_line(strs[0], strs[1:], num), "")[1]

    def expand(strs, flag, opt, num=0):
        ty_._prefixes = dict(zip(strs[1::2], strs[2::2]))
        return ty_._expand_prefixed_datatype_if_needed(strs[0])
    fs['ttl_expand_prefixed_datatype_if_needed'] = expand
    return fs


class _Diverges(Exception):
    pass


def _bounded(f, *args):
    """the real function under a 0.25 s alarm: the tokenizer's `while` loops have no bound (a datatype IRI without `>` restarts the scan for ever)"""
    import signal

    def on_alarm(signum, frame):
        raise _Diverges()
    old = signal.signal(signal.SIGALRM, on_alarm)
    signal.setitimer(signal.ITIMER_REAL, 0.25)
    try:
        return f(*args)
    finally:
        signal.setitimer(signal.ITIMER_REAL, 0)
        signal.signal(signal.SIGALRM, old)


NT_FUNCS = ['nt_look_for_index_of_closing_quotes', 'nt_look_for_last_index_before_blank', 'nt_look_for_last_index_of_uri_token', 'nt_look_for_last_index_of_bnode_token',
            'nt_look_for_last_index_of_unlabelled_number_token', 'nt_look_for_last_index_of_literal_token', 'nt_look_for_tokens']
NT_PIECES = ['<http://e/a>', '<http://e/b#x>', '<', '>', '"', '"', '\\"', '\\\\', '\\', 'abc', ' ', ' ', '\t', '.', ' .', '@en', '@en-GB', '^^', '^^<http://e/dt>', '^^<', '^^xsd:integer',
             '_:b1', '_:b.x', '_', '12', '3.5', '#', '# c', 'é', '\u2028', '\x85', '\x0c', '\xa0', "'", ':', '-']


TTL_FUNCS = ['ttl_remove_comments_if_needed', 'ttl_find_next_blank', 'ttl_count_prior_backslashes', 'ttl_find_next_unescaped_quotes',
             'ttl_find_next_quoted_literal_ending', 'ttl_expand_prefixed_datatype_if_needed', 'ttl_parse_cornered_element', 'ttl_next_line_token', 'ttl_next_line_token', 'ttl_clean_line', 'ttl_is_num_literal', 'ttl_parse_elem', 'ttl_parse_elem', 'ttl_process_prefix_line', 'ttl_process_base_line', 'ttl_check_directive_alone_in_its_line']
TTL_PIECES = ['"', '"', '\\"', '\\\\', '\\', ' #', ' # c', '#', ' ', ' ', 'ex:a', 'ex:p', '<http://e/x>', '^^', '^^xsd:int', '^^<http://e/dt>', '^^ex:dt', '@en', '@en-GB',
              ' .', ' ;', ' ,', '.', 'a', 'é', '12', '_:b', ':', "'", '\u2028']


def gen_ttl(rng):
    name = rng.choice(TTL_FUNCS)
    if rng.random() < (0.85 if name in ('ttl_find_next_quoted_literal_ending', 'ttl_find_next_unescaped_quotes') else 0.5):
        lit = '"' + rstr(rng, ['a', ' ', '\\"', '\\\\', '\\', '@', '^^', ' #', '#', ' .', 'é'], 0, 5) + '"' + rng.choice(['', '', '@en', '^^<http://e/dt>', '^^xsd:int', '^^ex:dt', '^^e:x:y', 'x'])
        line = rng.choice(['ex:s ex:p ', 'ex:p ', '', '<http://e/s> a ']) + lit + rng.choice([' .', ' ;', ' , ' + lit + ' .', '', ' . # c "q', ' # "x" # y'])
    else:
        line = rstr(rng, TTL_PIECES, 0, 7)
    if name == 'ttl_expand_prefixed_datatype_if_needed':
        pres = ['ex', 'e', 'xsd', '', 'http']
        keys = rng.sample(pres, rng.randint(0, 4))
        keys += [k for k in ('ex', 'xsd', 'e') if k not in keys and rng.random() < 0.5]
        tok = '"' + rstr(rng, ['a', '\\"', '^^', '"', ' '], 0, 3) + '"' + rng.choice(['', '@en', '^^<http://e/dt>', '^^xsd:int', '^^ex:dt', '^^e:x:y', '^^zz:q', '^^', '^^http://e/x', '^'])
        strs = [tok if rng.random() < 0.8 else line]
        for k in keys:
            strs += [k, rng.choice(['http://example.org/', 'http://e.org/ns#', ''])]
        return "F %s 0 N %s" % (name, " ".join(enc(x) for x in strs)), (name, strs, False, None, 0)
    if name == 'ttl_remove_comments_if_needed':
        return "G %s 0 %s" % (name, enc(line)), (name, [line], False, None, 0)
    if name in ('ttl_process_prefix_line', 'ttl_process_base_line', 'ttl_check_directive_alone_in_its_line'):
        words = [rng.choice(['@prefix', '@base', 'ex:', 'ex', ':', '<http://e/ns#>', '<http://e/>', '<x', 'y>', '.', '.', '', ';', 'ex:a']) for _ in range(rng.randint(0, 6))]
        if rng.random() < 0.6:
            words = (['@prefix', rng.choice(['ex:', 'ex', ':', '']), rng.choice(['<http://e/ns#>', '<>', '<x', 'http://e/'])] if name != 'ttl_process_base_line'
                     else ['@base', rng.choice(['<http://e/dir/>', '<x', ''])]) + rng.choice([['.'], ['.'], [], ['.', 'ex:a'], [';']])
        ln_ = " ".join(words)
        if name == 'ttl_check_directive_alone_in_its_line':
            num = rng.choice([3, 4, len(words)])
            return "H %s 0 %d N %s" % (name, num, " ".join(enc(x) for x in [ln_] + words)), (name, [ln_] + words, False, None, num)
        return "H %s 0 0 N %s" % (name, enc(ln_)), (name, [ln_], False, None, 0)
    if name == 'ttl_clean_line':
        raw = "".join(rng.choice(['ex:s', ' ', '  ', '   ', '\t', '\r', '\n', '"a # b"', '"', '\\"', ' #', '# c', ' # c', '.', ';', 'é', '\x0b', '\xa0']) for _ in range(rng.randint(0, 8)))
        return "G %s 0 %s" % (name, enc(raw)), (name, [raw], False, None, 0)
    if name in ('ttl_is_num_literal', 'ttl_parse_elem'):
        r_ = rng.random()
        if r_ < 0.3:
            tok = rng.choice(['', '+', '-']) + rng.choice(['0', '7', '12', '007', '', '3.0', '3.5', '.5', '5.', '1.2.3', '12a', '0.000', '-1', '1 ', ' 2'])
        elif r_ < 0.5:
            tok = rng.choice(['a', 'rdf:type', 'true', 'false', 'True', 'b', 'rdf:typ', '_:b1', '_:', '[]', ''])
        elif r_ < 0.7:
            tok = rng.choice(['<http://e/a>', '<rel>', '<', '<>', '<#x>'])
        elif r_ < 0.85:
            tok = rng.choice(['ex:a', 'e:b:c', ':x', 'zz:q', 'xsd:int', 'http://e/x', 'ex:'])
        else:
            tok = '"' + rstr(rng, ['a', '\\"', ' '], 0, 2) + '"' + rng.choice(['', '@en', '^^xsd:int', '^^<http://e/dt>', '^^ex:dt', '^^zz:q'])
        if name == 'ttl_is_num_literal':
            return "H %s 0 0 N %s" % (name, enc(tok)), (name, [tok], False, None, 0)
        opt = None if rng.random() < 0.5 else 'http://base.example/dir/'
        keys = rng.sample(['ex', 'e', 'xsd', '', 'rdf'], rng.randint(0, 4))
        strs = [tok]
        for k in keys:
            strs += [k, rng.choice(['http://example.org/', 'http://e.org/ns#'])]
        return "H %s 0 0 %s %s" % (name, 'N' if opt is None else enc(opt), " ".join(enc(x) for x in strs)), (name, strs, False, opt, 0)
    if name == 'ttl_parse_cornered_element':
        tok = rng.choice(['<http://e/a>', '<rel>', '<#frag>', '</abs>', '<>', '<', 'x', '', '<urn:x:y>'])
        opt = None if rng.random() < 0.4 else rng.choice(['http://base.example/dir/', 'http://b/x#', ''])
        return "H %s 0 0 %s %s" % (name, 'N' if opt is None else enc(opt), enc(tok)), (name, [tok], False, opt, 0)
    if name == 'ttl_next_line_token':
        opt = None if rng.random() < 0.6 else rng.choice(['http://base.example/dir/', 'http://b/x#'])
        starts = [i for i, c in enumerate(line) if i == 0 or line[i - 1] == ' ']
        num = rng.choice(starts) if starts and rng.random() < 0.85 else rng.randint(-2, len(line) + 1)
        return "H %s 0 %d %s %s" % (name, num, 'N' if opt is None else enc(opt), enc(line)), (name, [line], False, opt, num)
    want = {'ttl_find_next_blank': None, 'ttl_count_prior_backslashes': '"', 'ttl_find_next_unescaped_quotes': None, 'ttl_find_next_quoted_literal_ending': '"'}[name]
    good = [i for i, c in enumerate(line) if want is None or c in want]
    num = rng.choice(good) if good and rng.random() < 0.8 else rng.randint(-2, len(line) + 1)
    if name == 'ttl_find_next_unescaped_quotes' and good and rng.random() < 0.6:
        qs = [i + 1 for i, c in enumerate(line) if c == '"']
        num = rng.choice(qs) if qs else num
    return "G %s %d %s" % (name, num, enc(line)), (name, [line], False, None, num)


TUNE_FUNCS = ['parse_literal', 'parse_unquoted_literal', 'tune_subj', 'tune_prop', 'tune_token', 'tsv_look_for_tokens']


def gen_tune(rng):
    """tokens as the line readers cut them; numbers within the grammar the float() stand-in of the driver knows (sign, digits, one dot)"""
    name = rng.choice(TUNE_FUNCS)
    r = rng.random()
    if r < 0.35:
        tok = '"' + rstr(rng, ['a', ' ', '\\"', '@', '^^', '#', '<', '>', 'xsd:', 'é', '1'], 0, 4) + '"' + rng.choice(
            ['', '', '@en', '@en-GB', '^^<http://e/dt>', '^^<rel>', '^^xsd:integer', '^^rdf:langString', '^^dt:usDollar', '^^geo:wktLiteral', '^^ex:dt', '^^', '^^<http://e/dt', ' '])
    elif r < 0.55:
        tok = rng.choice(['<http://e/a>', '<http://e/a#b>', '<urn:x:y>', '<http://e/a', 'http://e/a>', '<>', '<', '< a >'])
    elif r < 0.7:
        tok = rng.choice(['_:b0', '_:', '_:a.b', '[]', ' [] ', '[ ]', '_b'])
    elif r < 0.9:
        tok = rng.choice(['', '+', '-']) + rng.choice(['0', '7', '12', '007', '', '3.0', '3.5', '.5', '5.', '1.2.3', '12a', '0.000', '-1', '1 ']) + rng.choice(['', '', ' ', '.0'])
    else:
        tok = rstr(rng, PIECES, 0, 4)
    if name == 'tsv_look_for_tokens':
        tok = "".join(rng.choice(['\t', '\t', '<http://e/a>', '"x y"', '_:b', ' ', '12', '\n', 'é']) for _ in range(rng.randint(0, 6)))
    flag = rng.random() < 0.5
    num = rng.randint(0, 1)
    opt = None if rng.random() < 0.6 else rng.choice(['http://base.example/', 'http://b/x#'])
    if any(ch in tok for ch in 'eEnN_') and name == 'tune_token' and not tok.startswith(('<', '"', '_:')):
        flag = False       # exponents, inf / nan, digit separators: outside the stand-in's grammar
    return "H %s %d %d %s %s" % (name, 1 if flag else 0, num, 'N' if opt is None else enc(opt), enc(tok)), (name, [tok], flag, opt, num)


def gen_nt(rng):
    name = rng.choice(NT_FUNCS)
    if rng.random() < 0.5:        # a statement-shaped line with an awkward literal
        lit = '"' + rstr(rng, ['a', ' ', '\\"', '\\\\', '@', '^^', '#', ' .', '<', '>', '.', 'é'], 0, 5) + '"' + rng.choice(['', '', '@en', '@en-GB', '^^<http://e/dt>', '^^xsd:int', '^^<http://e/dt', '^^'])
        obj = rng.choice([lit, lit, lit, '<http://e/o>', '_:b2', '_:b.', '42', '4.5', '<http://e/o'])
        line = rng.choice(['<http://e/s>', '_:s1', '<http://e/s']) + rng.choice([' ', '  ', '\t']) + '<http://e/p>' + rng.choice([' ', '\t ']) + obj + rng.choice([' .', '.', ' . # c', ' .#c', '', ' . # me@x "q"'])
    else:
        line = rstr(rng, NT_PIECES, 0, 7)
    if name == 'nt_look_for_tokens':
        return "G %s 0 %s" % (name, enc(line)), (name, [line], False, None, 0)
    want = {'nt_look_for_index_of_closing_quotes': '"', 'nt_look_for_last_index_of_uri_token': '<', 'nt_look_for_last_index_of_literal_token': '"',
            'nt_look_for_last_index_of_bnode_token': '_', 'nt_look_for_last_index_of_unlabelled_number_token': '0123456789',
            'nt_look_for_last_index_before_blank': '_@^0123456789'}[name]
    good = [i for i, c in enumerate(line) if c in want]
    num = rng.choice(good) if good and rng.random() < 0.8 else rng.randint(-2, len(line) + 1)
    return "G %s %d %s" % (name, num, enc(line)), (name, [line], False, None, num)


ARITY = {'prefixize_shape_name_if_possible': 1, 'serializer_tune_token': 1, 'serializer_str_of_target_element': 3, 'label_is_a_prefixed_uri': 1, 'label_parse_prefixed_label': 1, 'parse_shape_map_label': 1, 'add_corners': 1, 'add_corners_if_needed': 1, 'add_corners_if_it_is_an_uri': 1, 'there_is_arroba_after_last_quotes': 1,
         'unprefixize_uri_if_possible': 1, 'unprefixize_uri_mandatory': 1, 'prefixize_uri_if_possible': 1, 'serializer_prefixize_uri_if_possible': 1, 'check_if_property_belongs_to_namespace_list': 1, 'determine_suitable_iri_pattern': 0, 'longest_common_prefix': 2, 'remove_corners': 1, 'decide_literal_type': 1, 'build_shapes_name_for_class_uri': 2, 'get_shape_label_for_class_uri': 1}


def gen_function(rng, names):
    name = rng.choice(names)
    strs = [rstr(rng, PIECES, 0, 6) for _ in range(ARITY[name])]
    if name == 'longest_common_prefix' and rng.random() < 0.8:      # strings that share a prefix, one a prefix of the other, equal, empty
        basis = rstr(rng, PIECES, 0, 4)
        strs = [basis[:rng.randint(0, len(basis))] + rstr(rng, SMALL, 0, 2) if rng.random() < 0.7 else basis for _ in range(2)]
    if name == 'check_if_property_belongs_to_namespace_list':
        nss = ['http://example.org/', 'http://example.org/deep/', 'http://example.org/dee', 'http://example.org/ns#', '', 'http://other.example/']
        strs = [rng.choice(nss) + rstr(rng, ['p', 'q', '/', '#', '1', 'deep'], 0, 3)] + rng.sample(nss, rng.randint(0, 3))
    if name == 'serializer_prefixize_uri_if_possible':
        nss = ['http://example.org/', 'http://example.org/deep/', 'http://example.org/dee', 'http://example.org/ns#', 'urn:x:', 'ab', 'http://other.example/']
        keys = rng.sample(nss, rng.randint(0, 4))            # a Python dict: pairwise distinct keys
        tail = rstr(rng, ['p', 'q', '/', '#', '1', 'deep', 'urn:x:', 'ab', 'http://example.org/'], 0, 3)
        strs = [rng.choice(nss) + tail]
        for k in keys:
            strs += [k, rng.choice(['ex', 'e', '', 'x1'])]
    if name in ('unprefixize_uri_if_possible', 'unprefixize_uri_mandatory'):
        pres = ['ex', 'e', 'http', 'xsd', '', 'a:b', 'ex:']
        keys = rng.sample(pres, rng.randint(0, 4))
        strs = [rng.choice(['<', '']) + rng.choice(pres + ['zz', 'https']) + rng.choice([':', '://', '', ':ex:']) + rstr(rng, ['p', 'q', '/', '#', 'ex:', ':', '>'], 0, 3)]
        for k in keys:
            strs += [k, rng.choice(['http://example.org/', 'http://e.org/ns#', '', 'ex:'])]
    if name in ('prefixize_shape_name_if_possible', 'serializer_tune_token', 'serializer_str_of_target_element'):
        nss = ['http://example.org/', 'http://example.org/deep/', 'http://weso.es/shapes/', 'http://example.org/ns#', 'urn:x:', 'ab']
        keys = rng.sample(nss, rng.randint(0, 4))
        iri = rng.choice(nss) + rstr(rng, ['p', 'q', '/', '#', '1', 'deep', ':'], 0, 3)
        tok = rng.choice(['%<' + iri + '>', '%<' + iri + '>', iri, iri, 'IRI', 'BNode', 'NONLITERAL', 'LITERAL', 'noColon', '<x', '%' + iri, '%<' + iri, ''])
        if name == 'prefixize_shape_name_if_possible':
            tok = rng.choice(['%<' + iri + '>', '%<' + iri + '>', '%' + iri, '%<' + iri, '<' + iri + '>', ''])
        strs = [tok]
        if name == 'serializer_str_of_target_element':
            ip = rng.choice(['http://www.w3.org/1999/02/22-rdf-syntax-ns#type', 'http://example.org/inst'])
            strs = [ip, tok, rng.choice([ip, ip, 'http://example.org/p', ''])]       # the serializer's instantiation property, then element and predicate
        for k in keys:
            strs += [k, rng.choice(['ex', 'e', '', 'x1'])]
    if name in ('label_is_a_prefixed_uri', 'label_parse_prefixed_label', 'parse_shape_map_label'):
        pres = ['ex', 'e', '', 'sx', 'a:b', '<ex']
        keys = rng.sample(pres, rng.randint(0, 4))
        strs = [rng.choice(['', '<', '<http://e.org/', 'ex:', 'sx:', ':', 'zz:', 'ex', 'e:x:']) + rstr(rng, ['S', '1', ':', 'adult', '>', '/', '#'], 0, 3)]
        for k in keys:
            strs += [k, rng.choice(['http://example.org/', 'http://shapes.example/ns#', ''])]
    if name == 'prefixize_uri_if_possible':
        nss = ['http://example.org/', 'http://example.org/deep/', 'http://example.org/dee', 'http://example.org/ns#', 'urn:x:', 'ab', '<http://example.org/', '']
        keys = rng.sample(nss, rng.randint(0, 4))
        body = rng.choice(nss) + rstr(rng, ['p', 'q', '/', '#', '1', 'deep', 'urn:x:', 'ab', 'http://example.org/'], 0, 3)
        strs = [rng.choice(['<%s>', '<%s>', '%s', '<%s', '%s>']) % body]
        for k in keys:
            strs += [k, rng.choice(['ex', 'e', '', 'x1'])]
    if name == 'there_is_arroba_after_last_quotes':
        strs = [rstr(rng, ['"', '@', 'a', 'en', '\\"', '^^', ' '], 0, 7)]
    if name in ('add_corners_if_needed', 'add_corners_if_it_is_an_uri'):
        strs = [rng.choice(['', '<', 'http://', 'https://', 'http:/', 'HTTP://', ' http://', 'urn:', '_:']) + rstr(rng, PIECES, 0, 3)]
    if name == 'build_shapes_name_for_class_uri' and rng.random() < 0.7:
        strs[1] = rng.choice(['http://weso.es/shapes/', 'http://example.org/s#', ''])
    flag = rng.random() < 0.5
    opt = None if rng.random() < 0.5 else rstr(rng, PIECES, 0, 2)
    if name == 'determine_suitable_iri_pattern':
        opt = None if rng.random() < 0.1 else rng.choice(['', 'h', 'ht', 'http', 'https', 'http:', 'http:/', 'http://', 'https://', 'https://a', 'http://a', 'urn:', 'a:', 'ab:', 'x#']) \
            + rstr(rng, ['a', 'b', '/', '#', ':', 'é', '.', ' '], 0, 6)
    line = "F %s %s %s %s" % (name, '1' if flag else '0', 'N' if opt is None else enc(opt), " ".join(enc(s) for s in strs))
    return line, (name, strs, flag, opt)


def run(rng, n, names=None, prebuilt=None):
    """-> dict(ok, build_output, cases, disagreements=[...], stats); prebuilt = (ok, output) when the caller built strdriver"""
    ok, out = prebuilt if prebuilt is not None else build()
    if not ok:
        return {"ok": False, "build_output": out, "cases": 0, "disagreements": [], "stats": {}}
    fs = impl_functions()
    names_given = names
    names = [x for x in (names or list(ARITY)) if x in fs]
    lines, expect = [], []
    for _ in range(n):
        ln, e = gen_primitive(rng)
        lines.append(ln); expect.append(('P', ln, e))
    for k in range(n):
        num = None
        if k % 4 == 3 and all(x in fs for x in NT_FUNCS) and (names_given is None or any(x in names_given for x in NT_FUNCS)):
            ln, (name, strs, flag, opt, num) = gen_nt(rng)
        elif k % 4 == 1 and all(x in fs for x in TTL_FUNCS) and (names_given is None or any(x in names_given for x in TTL_FUNCS)):
            ln, (name, strs, flag, opt, num) = gen_ttl(rng)
        elif k % 8 == 2 and all(x in fs for x in TUNE_FUNCS) and (names_given is None or any(x in names_given for x in TUNE_FUNCS)):
            ln, (name, strs, flag, opt, num) = gen_tune(rng)
        else:
            ln, (name, strs, flag, opt) = gen_function(rng, [x for x in names if x in ARITY])
        try:
            r = fs[name](strs, flag, opt) if num is None else fs[name](strs, flag, opt, num)
            e = ('str', r)
        except _Diverges:
            e = ('err', 'OutOfFuel')
        except (ValueError, RuntimeError, IndexError, KeyError, TypeError) as ex:
            e = ('err', type(ex).__name__)
        except Exception as ex:   # anything else is outside the translated fragment's exception vocabulary
            e = ('err', "other:" + type(ex).__name__)
        lines.append(ln); expect.append(('F', ln, e))
    p = subprocess.run([STRDRIVER], input="\n".join(lines) + "\n", capture_output=True, text=True, timeout=600)
    got = p.stdout.split("\n")
    dis, stats = [], {"primitive_cases": n, "function_cases": n, "exceptions": 0, "nofunc": 0}
    for (kind, ln, e), g in zip(expect, got):
        if g == "nofunc":
            stats["nofunc"] += 1      # function not translated this run: the Props build reports that, nothing to compare
            continue
        if e[0] == 'str' and e[1] is None:
            want = "none"
        elif e[0] == 'str':
            want = "str " + enc(e[1])
        elif e[0] == 'int':
            want = "int %d" % e[1]
        elif e[0] == 'bool':
            want = "bool %d" % (1 if e[1] else 0)
        else:
            want = "err " + e[1]
            stats["exceptions"] += 1
        key_ = ln.split(" ")[1] if kind == 'F' else ln.split(" ")[0]
        stats[key_] = stats.get(key_, 0) + 1
        if g != want:
            dis.append({"what": "fragment S: generated Lean and CPython disagree (translator or Base/PyOps.lean misrepresents Python)",
                        "line": ln, "python": want, "lean": g})
    if len(got) < len(expect):
        dis.append({"what": "strdriver produced %d of %d answers" % (len(got), len(expect)), "stderr": p.stderr[:300]})
    return {"ok": True, "build_output": "", "cases": 2 * n, "disagreements": dis, "stats": stats}


if __name__ == "__main__":
    import random, json, sys
    r = run(random.Random(int(sys.argv[1]) if len(sys.argv) > 1 else 1), int(sys.argv[2]) if len(sys.argv) > 2 else 20000)
    print(json.dumps({k: (v[:5] if k == "disagreements" else v) for k, v in r.items()}, indent=1, ensure_ascii=True))
    print("disagreements:", len(r["disagreements"]))
