"""Shared constants / helpers of the verification harness (run with /venv/bin/python)."""
import os, sys, warnings
REPO = os.environ.get("SHEXER_REPO", "/repo")
VERIF = os.path.dirname(os.path.dirname(os.path.abspath(__file__)))
if REPO not in sys.path:
    sys.path.insert(0, REPO)
warnings.filterwarnings("ignore")

RDF = "http://www.w3.org/1999/02/22-rdf-syntax-ns#"
RDF_TYPE = RDF + "type"
XSD = "http://www.w3.org/2001/XMLSchema#"
EX = "http://example.org/"
LANG_STRING = RDF + "langString"
SHAPES_NS = "http://weso.es/shapes/"
WD_P31 = "http://www.wikidata.org/prop/direct/P31"

DEFAULT_NS = {EX: "ex", RDF: "rdf", XSD: "xsd"}


# abstract terms: ('I', iri) | ('B', '_:label') | ('L', lex, datatype, lang-or-None)
def I(x): return ('I', x if x.startswith("http") else EX + x)
def B(x): return ('B', x if x.startswith("_:") else '_:' + x)
def L(lex, dt=XSD + 'string', lang=None): return ('L', lex, dt, lang)


def term_dt(t):
    """datatype IRI sheXer is expected to assign to a literal term"""
    assert t[0] == 'L'
    return LANG_STRING if t[3] else t[2]


def nt_term(t):
    if t[0] == 'I': return '<%s>' % t[1]
    if t[0] == 'B': return t[1]
    lex = t[1].replace('\\', '\\\\').replace('"', '\\"')      # N-Triples escapes (no-op for plain lexical forms)
    if t[3]: return '"%s"@%s' % (lex, t[3])
    if t[2] == XSD + 'string': return '"%s"' % lex
    return '"%s"^^<%s>' % (lex, t[2])


def to_nt(triples):
    return "".join('%s <%s> %s .\n' % (nt_term(s), p, nt_term(o)) for s, p, o in triples)
