"""Common flow of every check:  extract -> build -> audit -> property run -> findings -> evidence.

exit 0: property held on everything explored (KNOWN-FINDING lines allowed)
exit 1: VIOLATION line printed (with replay file)
exit 2: infrastructure failure (never a VIOLATION line)
"""
import os, sys, re, json, time, subprocess, fcntl, hashlib, traceback
from common import VERIF, REPO

LEAN = os.path.join(VERIF, "lean")
ALLOWED_AXIOMS = {"propext", "Classical.choice", "Quot.sound"}
FORBIDDEN = re.compile(r'\b(sorry|admit|native_decide|bv_decide|implemented_by|unsafe)\b|^axiom |maxHeartbeats 0')
TRUSTED_BASE = [
    "Lean 4.33.0 kernel (thorough tier: also leanchecker); axioms allowed: propext, Classical.choice, Quot.sound",
    "harness/extract.py (Python AST -> Lean for constants, tables and fragment-G decision functions)",
    "harness/extract_str.py + lean/ShexerModel/Base/PyOps.lean (fragment S: Python string functions, `while` loops with fuel, model objects -> Lean); "
    "run against CPython and the real functions on every C05-C08 run (harness/strcheck.py); parameters standing for external functions: "
    "resolve = urllib.parse.urljoin, floatOf = float() (none = ValueError, some b = whole number); isnumeric() read as ASCII digit",
    "correspondence harness: generators, ShExC text parser, canonicalisers, SIGALRM hang guard",
    "Lean compiler (the native `driver` is used for the correspondence only)",
    "hand-written Model/*.lean: modelled, not verified; tied to /repo by the correspondence on the stated domain",
    "not modelled: rdflib (parsers, SPARQL, serialiser), SPARQLWrapper/HTTP, gzip/xz/zip, file system, CPython float formatting and hashing",
]


class Infra(Exception):
    pass


def sh(cmd, cwd=None, timeout=3600, env=None):
    p = subprocess.run(cmd, cwd=cwd, capture_output=True, text=True, timeout=timeout, env=env)
    return p.returncode, p.stdout + p.stderr


def strip_comments(src):
    src = re.sub(r'/-.*?-/', lambda m: "\n" * m.group(0).count("\n"), src, flags=re.S)
    return re.sub(r'--.*', '', src)


def lean_files():
    out = []
    for root, dirs, files in os.walk(os.path.join(LEAN, "ShexerModel")):
        for f in files:
            if f.endswith(".lean"):
                out.append(os.path.join(root, f))
    out.append(os.path.join(LEAN, "Main.lean"))
    return sorted(out)


def grep_audit():
    hits = []
    for f in lean_files():
        src = strip_comments(open(f).read())
        for i, line in enumerate(src.split("\n"), 1):
            if FORBIDDEN.search(line):
                hits.append("%s:%d: %s" % (os.path.relpath(f, LEAN), i, line.strip()[:100]))
    return hits


def theorems_of(module_file):
    """names (fully qualified) of the theorems stated in a Props file"""
    src = strip_comments(open(module_file).read())
    ns = []
    names = []
    for line in src.split("\n"):
        m = re.match(r'^namespace\s+(\S+)', line)
        if m:
            ns.append(m.group(1))
            continue
        m = re.match(r'^end\s+(\S+)', line)
        if m and ns and ns[-1] == m.group(1):
            ns.pop()
            continue
        m = re.match(r'^(?:@\[[^\]]*\]\s*)?(?:private\s+|protected\s+)?theorem\s+(\S+)', line)
        if m:
            names.append(".".join(ns + [m.group(1)]))
    return names


class Ctx:
    def __init__(self, pid, tier, seed):
        self.pid, self.tier, self.seed = pid, tier, seed
        self.t0 = time.time()
        self.log = []
        self.extract_report = {}
        self.build_ok = False       # Props module of this property built
        self.driver_ok = False
        self.spec_ok = False        # the spec-only driver (declarative counts) built
        self.build_output = ""
        self.obligations = []
        self.discharged = []
        self.audit_problems = []

    def say(self, *a):
        msg = " ".join(str(x) for x in a)
        self.log.append(msg)
        print(msg, flush=True)


def prepare(ctx, props_modules):
    """extract + build + audit under a lock (one .lake directory for all checks)"""
    os.makedirs(os.path.join(LEAN, ".lake"), exist_ok=True)
    lock = open(os.path.join(LEAN, ".lake", "verif.lock"), "w")
    fcntl.flock(lock, fcntl.LOCK_EX)
    try:
        rc, out = sh([sys.executable, os.path.join(VERIF, "harness", "extract.py"), "--repo", REPO])
        if rc != 0:
            raise Infra("extractor crashed: " + out[-2000:])
        ctx.say("[extract]", out.strip().replace("\n", " | "))
        rep = os.path.join(LEAN, "ShexerModel", "Generated.lean.report.json")
        ctx.extract_report = json.load(open(rep)) if os.path.exists(rep) else {}
        # driver (model only)
        rc, out = sh(["lake", "build", "driver"], cwd=LEAN)
        ctx.driver_ok = rc == 0
        if not ctx.driver_ok:
            ctx.say("[build] driver FAILED (the model no longer type-checks against the regenerated definitions)")
            ctx.build_output += out[-3000:]
        rc, out = sh(["lake", "build", "specdriver"], cwd=LEAN)
        ctx.spec_ok = rc == 0
        if not ctx.spec_ok:
            ctx.say("[build] specdriver FAILED")
            ctx.build_output += out[-2000:]
        rc, out = sh(["lake", "build", "strdriver"], cwd=LEAN)     # fragment S's own correspondence driver (harness/strcheck.py)
        ctx.str_ok = rc == 0
        ctx.str_build_output = "" if rc == 0 else out[-1500:]
        # the property's theorems
        ok = True
        built = []
        for mod in props_modules:
            rc, out = sh(["lake", "build", mod], cwd=LEAN)
            if rc != 0:
                ok = False
                ctx.build_output += out[-4000:]
                ctx.say("[build] %s FAILED" % mod)
            else:
                built.append(mod)
        ctx.build_ok = ok
        # audit
        hits = grep_audit()
        if hits:
            ctx.audit_problems += ["forbidden token: " + h for h in hits]
        auditable = []
        for mod in props_modules:
            f = os.path.join(LEAN, mod.replace(".", "/") + ".lean")
            ths = theorems_of(f)
            ctx.obligations += ths
            if mod in built:
                auditable += ths      # theorems of a module that did not build stay undischarged
        if built and auditable:
            tmp = os.path.join(LEAN, ".lake", "audit_%s_%d.lean" % (ctx.pid, os.getpid()))
            with open(tmp, "w") as fh:
                fh.write("".join("import %s\n" % m for m in built))
                fh.write("".join("#print axioms %s\n" % t for t in auditable))
            rc, out = sh(["lake", "env", "lean", tmp], cwd=LEAN)
            os.remove(tmp)
            seen = {}
            for m in re.finditer(r"'([^']+)' (does not depend on any axioms|depends on axioms: \[([^\]]*)\])", out):
                seen[m.group(1)] = set(x.strip() for x in (m.group(3) or "").replace("\n", " ").split(",") if x.strip())
            for t in auditable:
                if t not in seen:
                    ctx.audit_problems.append("no axiom report for " + t)
                elif not seen[t] <= ALLOWED_AXIOMS:
                    ctx.audit_problems.append("%s depends on %s" % (t, sorted(seen[t] - ALLOWED_AXIOMS)))
                else:
                    ctx.discharged.append(t)
            if rc != 0 and not ctx.audit_problems:
                ctx.audit_problems.append("audit file failed: " + out[-500:])
        if ctx.tier == "thorough" and ok:
            rc, out = sh(["lake", "env", "leanchecker"] + props_modules, cwd=LEAN, timeout=3600)
            ctx.say("[leanchecker]", "ok" if rc == 0 else "FAILED: " + out[-500:])
            if rc != 0:
                ctx.audit_problems.append("leanchecker rejected: " + out[-300:])
        ctx.say("[proof] obligations=%d discharged=%d build=%s driver=%s audit=%s" % (
            len(ctx.obligations), len(ctx.discharged), "ok" if ok else "FAILED", "ok" if ctx.driver_ok else "FAILED",
            "ok" if not ctx.audit_problems else ctx.audit_problems[:3]))
    finally:
        fcntl.flock(lock, fcntl.LOCK_UN)
        lock.close()


def load_findings(pid):
    path = os.path.join(VERIF, "known_findings.json")
    if not os.path.exists(path):
        return []
    return [f for f in json.load(open(path)).get("findings", []) if pid in f["properties"]]


def write_replay(ctx, n, payload):
    os.makedirs(os.path.join(VERIF, "replays"), exist_ok=True)
    rel = "replays/%s-%s-%d.json" % (ctx.pid, ctx.seed, n)
    payload = dict(payload)
    payload.setdefault("property", ctx.pid)
    payload.setdefault("seed", ctx.seed)
    payload.setdefault("replay_cmd", "./check %s --replay %s" % (ctx.pid, rel))
    with open(os.path.join(VERIF, rel), "w") as f:
        json.dump(payload, f, indent=1, default=str)
    return rel


def finish(ctx, result):
    """result: dict(evaluations, distinct_nontrivial, rule, samples, stats,
                    violations=[{what, input…}]   (implementation breaks the Spec, not explained by a finding)
                    disagreements=[…]             (model vs implementation)
                    known=[(finding id, text)]    (listed findings that reproduced)
                    search_note)"""
    proof_broken = (not ctx.build_ok) or bool(ctx.audit_problems) or len(ctx.discharged) != len(ctx.obligations) \
        or any(v.startswith("UNTRANSLATABLE") for k, v in ctx.extract_report.items() if k in result.get("generated_deps", []))
    untranslatable = [k for k, v in ctx.extract_report.items() if v.startswith("UNTRANSLATABLE") and k in result.get("generated_deps", [])]
    rc = 0
    for fid, text in result.get("known", []):
        print("KNOWN-FINDING: property=%s %s" % (ctx.pid, text), flush=True)
    viols = result.get("violations", [])
    n = 0
    if viols:
        for v in viols[:5]:
            n += 1
            rel = write_replay(ctx, n, v)
            print("VIOLATION property=%s replay=%s" % (ctx.pid, rel), flush=True)
        rc = 1
    elif proof_broken or result.get("disagreements") or not ctx.driver_ok:
        why = {"proof_obligations_failed_to_build": not ctx.build_ok,
               "audit_problems": ctx.audit_problems,
               "undischarged": sorted(set(ctx.obligations) - set(ctx.discharged)),
               "not_rederived_from_source": untranslatable,
               "driver_built": ctx.driver_ok,
               "build_output_tail": ctx.build_output[-3000:],
               "first_disagreements": result.get("disagreements", [])[:3],
               "search": result.get("search_note", "the failing-input search on the implementation found nothing")}
        rel = write_replay(ctx, 0, {"kind": "unproved", **why})
        print("VIOLATION property=%s replay=%s no-failing-input-found" % (ctx.pid, rel), flush=True)
        rc = 1
    wall = time.time() - ctx.t0
    cov = {
        "obligations": len(ctx.obligations), "discharged": len(ctx.discharged),
        "checker_cmd": "cd lean && lake build %s driver && lake env lean <#print axioms of every theorem>%s" % (
            " ".join(result.get("props_modules", [])), " && lake env leanchecker" if ctx.tier == "thorough" else ""),
        "trusted_base": TRUSTED_BASE + result.get("trusted_extra", []),
        "theorems": ctx.discharged,
        "evaluations": result.get("evaluations", 0),
        "distinct_nontrivial": result.get("distinct_nontrivial", 0),
        "rule": result.get("rule", ""),
        "samples": result.get("samples", [])[:5],
        "exhaustive": bool(result.get("exhaustive", False)),
        "traces_validated_against_impl": result.get("evaluations", 0),
        "disagreements_checked": len(result.get("disagreements", [])),
        "input_distribution": result.get("stats", {}),
        "generated_definitions": {k: v for k, v in ctx.extract_report.items()},
        "known_findings_reproduced": [k for k, _ in result.get("known", [])],
    }
    ev = {"property_id": ctx.pid, "tier": ctx.tier, "seed": ctx.seed, "level": "proof", "coverage": cov,
          "assumptions": result.get("assumptions", []), "wall_s": round(wall, 2), "violations": len(viols) if viols else (1 if rc else 0)}
    os.makedirs(os.path.join(VERIF, "evidence"), exist_ok=True)
    with open(os.path.join(VERIF, "evidence", ctx.pid + ".json"), "w") as f:
        json.dump(ev, f, indent=1, default=str)
    print("[done] %s tier=%s seed=%s wall=%.1fs exit=%d evaluations=%d" % (ctx.pid, ctx.tier, ctx.seed, wall, rc, cov["evaluations"]), flush=True)
    return rc
