"""Comparison of the model's canonical shapes with the parsed implementation output."""
from fractions import Fraction
import math


def ratio_ok(text, n, N, decimals):
    """is `text` an acceptable rendering of 100*n/N ?  (float formatting is validated, not modelled:
    d<0: within 1e-9 relative; d>0: a correct rounding to d places (any tie rule); d=0: sheXer
    truncates (golden file pins it) - floor or nearest accepted here, C13 looks closer)"""
    if N == 0:
        return False
    exact = Fraction(100 * n, N)
    try:
        shown = Fraction(text)
    except Exception:
        return False
    if decimals is None or decimals < 0:
        return abs(shown - exact) <= Fraction(1, 10 ** 9) * max(1, exact)
    unit = Fraction(1, 10 ** decimals)
    if decimals == 0:
        return abs(shown - exact) < 1
    return abs(shown - exact) <= unit / 2 + Fraction(1, 10 ** 12)


def float_anomaly(mshape):
    """NONLITERAL statement whose float probability n_b/N + n_i/N differs from (n_b+n_i)/N
    (the implementation adds two floats there; the model adds the counts)"""
    N = mshape['n']
    if N == 0:
        return False
    for st in mshape['stmts']:
        if st.get('parts'):
            b, i = st['parts']
            if b / N + i / N != (b + i) / N:
                return True
    return False


def _cmp_fig(where, m_n, N, i_ratio, i_n, cfg, diffs, skip_ratio=False):
    if i_n is not None and i_n != m_n:
        diffs.append("%s: count impl=%s model=%s" % (where, i_n, m_n))
    if i_ratio is not None and not skip_ratio:
        if not ratio_ok(i_ratio, m_n, N, cfg['decimals']):
            diffs.append("%s: ratio text %r does not render %d/%d" % (where, i_ratio, m_n, N))


def _stmt_key(st):
    return (st['inv'], st['prop'], tuple(st['types']), st['card'])


def compare(mshapes, iparsed, cfg):
    diffs = []
    ishapes = iparsed['shapes']
    if len(mshapes) != len(ishapes):
        diffs.append("number of shapes impl=%d model=%d (impl %s / model %s)" % (
            len(ishapes), len(mshapes), [s['label'] for s in ishapes], [s['name'] for s in mshapes]))
        return diffs
    figures_visible = not cfg['disable_comments']
    for ms, is_ in zip(mshapes, ishapes):
        lab = '%<' + is_['label'] + '>'
        if lab != ms['name']:
            diffs.append("shape label impl=%s model=%s" % (lab, ms['name']))
            continue
        w = ms['name']
        if is_['n'] is not None and is_['n'] != ms['n']:
            diffs.append("%s: instance count impl=%s model=%s" % (w, is_['n'], ms['n']))
        expect_header = figures_visible and cfg['report'] in ('abs', 'mixed')
        if expect_header != (is_['n'] is not None):
            diffs.append("%s: instance-count header presence impl=%s expected=%s" % (w, is_['n'] is not None, expect_header))
        mst, ist = ms['stmts'], is_['stmts']
        if len(mst) != len(ist):
            diffs.append("%s: number of statements impl=%d model=%d: impl %s model %s" % (
                w, len(ist), len(mst), [_stmt_key(s) for s in ist], [_stmt_key(s) for s in mst]))
            continue
        anomaly = float_anomaly(ms)
        if anomaly:
            mst = sorted(mst, key=lambda s: repr(_stmt_key(s)))
            ist = sorted(ist, key=lambda s: repr(_stmt_key(s)))
        for a, b in zip(mst, ist):
            if _stmt_key(a) != _stmt_key(b):
                diffs.append("%s: statement impl=%s model=%s" % (w, _stmt_key(b), _stmt_key(a)))
                continue
            ww = "%s %s%s %s" % (w, '^' if a['inv'] else '', a['prop'], "|".join(a['types']))
            # a value of the instantiation property is a value set `[ex:C]` (in both directions); every other value expression is a bare token
            if 'value_set' in b and any(v != (b['prop'] == cfg['inst_prop']) for v in b['value_set']):
                diffs.append("%s: value written %s, expected %s" % (ww, " ".join(b['type_toks']), "a value set [..]" if b['prop'] == cfg['inst_prop'] else "a bare token"))
            expect_fig = figures_visible and a['card'] not in ('*', '?') and len(a['types']) == 1
            if expect_fig != b['has_fig']:
                diffs.append("%s: figure presence impl=%s expected=%s" % (ww, b['has_fig'], expect_fig))
            nl = anomaly and 'NONLITERAL' in a['types']
            if b['has_fig']:
                _cmp_fig(ww, a['n'], ms['n'], b['ratio'], b['n'], cfg, diffs, skip_ratio=nl)
            ic = [c for c in b['comments'] if 'example' not in c]
            if len(ic) != len(a['comments']):
                diffs.append("%s: number of comments impl=%d model=%d" % (ww, len(ic), len(a['comments'])))
                continue
            for k, (ca, cb) in enumerate(zip(a['comments'], ic)):
                if (ca['ty'], ca['card']) != (cb['ty'], cb['card']):
                    diffs.append("%s: comment %d impl=%s model=%s" % (ww, k, (cb['ty'], cb['card']), (ca['ty'], ca['card'])))
                    continue
                _cmp_fig(ww + " comment %d" % k, ca['n'], ms['n'], cb['ratio'], cb['n'], cfg, diffs,
                         skip_ratio=(nl and ca['ty'] == 'NONLITERAL'))
    return diffs
