"""Runs the real implementation in-process and canonicalises its outcome."""
import signal, traceback
from common import *
from shexer.shaper import Shaper
from shexer import consts as C
import shex_text


class Hang(Exception):
    pass


def _alarm(*a):
    raise Hang()


def shaper_kwargs(cfg):
    sp = cfg.get('inst_prop_spelled')
    if sp and not sp.startswith('<'):
        # a prefixed spelling only means the property when this configuration's namespaces_dict declares that prefix for its namespace
        pre, loc = sp.split(':', 1)
        back = {v: k for k, v in (cfg.get('ns_dict') or {}).items()}
        if back.get(pre) is None or back[pre] + loc != cfg['inst_prop']:
            sp = None
    kw = dict(instantiation_property=sp or cfg['inst_prop'],
              namespaces_dict=dict(cfg['ns_dict']),
              all_instances_are_compliant_mode=cfg['all_compliant'],
              keep_less_specific=cfg['keep_less_specific'],
              discard_useless_constraints_with_positive_closure=cfg['discard_useless'],
              allow_opt_cardinality=cfg['allow_opt'],
              disable_exact_cardinality=cfg['disable_exact'],
              disable_comments=cfg['disable_comments'],
              disable_or_statements=cfg['disable_or'],
              allow_redundant_or=cfg['allow_redundant_or'],
              remove_empty_shapes=cfg['remove_empty'],
              inverse_paths=cfg['inverse'],
              instances_report_mode={'mixed': C.MIXED_INSTANCES, 'abs': C.ABSOLUTE_INSTANCES, 'ratio': C.RATIO_INSTANCES}[cfg['report']],
              decimals=cfg['decimals'],
              shapes_namespace=cfg['shapes_ns'],
              instances_cap=cfg['cap'],
              namespaces_to_ignore=cfg['ignore_ns'],
              detect_minimal_iri=cfg.get('detect_min_iri', False),
              examples_mode=cfg.get('examples'))
    if cfg['target_mode'] == 'all':
        kw['all_classes_mode'] = True
    elif cfg['target_mode'] == 'classes':
        kw['target_classes'] = list(cfg.get('targets_spelled') or cfg['targets'])
    return kw


def exc_class(e):
    tb = traceback.extract_tb(e.__traceback__)
    frame = '?'
    for fr in reversed(tb):
        if '/shexer/' in fr.filename:
            frame = fr.name
            break
    return (type(e).__name__, frame)


HANGS = [0]


def budget(seconds):
    """after three calls that did not return the verdict is in: later calls get 5 s instead of a minute each, so that a change which
    makes the code loop is reported in minutes, not hours"""
    return seconds if HANGS[0] < 3 else min(seconds, 5)


def run_shaper(nt_text, cfg, output_format=None, timeout=60, input_format=None, **extra):
    """-> ('ok', text) | ('exc', (class, frame), message) | ('hang',)"""
    kw = shaper_kwargs(cfg)
    kw.update(extra)
    old = signal.signal(signal.SIGALRM, _alarm)
    signal.alarm(budget(timeout))
    try:
        s = Shaper(raw_graph=nt_text, input_format=input_format or C.NT, **kw)
        a, b = cfg['th']
        text = s.shex_graph(string_output=True, acceptance_threshold=a / b,
                            output_format=output_format or C.SHEXC)
        return ('ok', text)
    except Hang:
        HANGS[0] += 1
        return ('hang',)
    except Exception as e:
        return ('exc', exc_class(e), str(e)[:200])
    finally:
        signal.alarm(0)
        signal.signal(signal.SIGALRM, old)


def guarded(fn, seconds=60):
    """run fn() under an alarm: -> (result, None) | (None, ('hang', 'Hang', ...)) ; exceptions of fn propagate"""
    old = signal.signal(signal.SIGALRM, _alarm)
    signal.alarm(budget(seconds))
    try:
        return fn(), None
    except Hang:
        HANGS[0] += 1
        return None, ('hang', 'Hang', 'no result within %d s' % seconds)
    finally:
        signal.alarm(0)
        signal.signal(signal.SIGALRM, old)


def run_shapes(triples, cfg, **extra):
    """implementation outcome as canonical structure: ('ok', parsed, text) | other outcome"""
    r = run_shaper(to_nt(triples), cfg, **extra)
    if r[0] != 'ok':
        return r
    return ('ok', shex_text.parse(r[1]), r[1])
