"""Parser of the ShExC text that sheXer emits -> canonical structure (no rdflib, no shexer import).

shape  := {label, n, stem, example, stmts}
stmt   := {inv, prop, types, card, ratio, n, comments}
comment:= {ratio, n, ty, card} | {example: text}
Types are canonicalised to the strings the Lean model uses: datatype / class IRIs expanded,
shape references as '%<iri>', macros unchanged.
"""
import re

MACROS = ('IRI', 'BNode', 'NONLITERAL', '.', 'LITERAL')
_CARD = re.compile(r'^(\*|\+|\?|\{\d+\})$')
_FIG = re.compile(r'^(?:(?P<ratio>[0-9.eE+-]+) %)?\s*(?:\(?(?P<n>\d+) instances?\)?\.?)?\s*$')
_COMMENT = re.compile(r'^# (?P<fig>.*?)\s*(?:obj: (?P<obj>.*)\. Cardinality: (?P<card>\S+)|with cardinality (?P<card2>\S+))$')


class ShexParseError(Exception):
    pass


def _expand(tok, prefixes):
    if tok.startswith('<') and tok.endswith('>'):
        return tok[1:-1]
    if ':' in tok:
        pre, loc = tok.split(':', 1)
        if pre in prefixes:
            return prefixes[pre] + loc
        raise ShexParseError("undeclared prefix in %r" % tok)
    raise ShexParseError("cannot expand %r" % tok)


def canon_type(tok, prefixes):
    if tok in MACROS:
        return tok
    if tok.startswith('@'):
        return '%<' + _expand(tok[1:], prefixes) + '>'
    if tok.startswith('[') and tok.endswith(']'):
        return _expand(tok[1:-1], prefixes)
    return _expand(tok, prefixes)


def _fig(text):
    m = _FIG.match(text.strip())
    if not m:
        raise ShexParseError("bad figure %r" % text)
    return m.group('ratio'), (int(m.group('n')) if m.group('n') is not None else None)


def parse(text):
    prefixes = {}
    prefix_lines = []
    shapes = []
    cur = None
    last = None
    in_body = False
    for raw in text.split("\n"):
        s = raw.strip()
        if s == '':
            continue
        if s.startswith('PREFIX '):
            m = re.match(r'^PREFIX (\S*): <(.*)>$', s)
            if not m:
                raise ShexParseError("bad prefix line %r" % s)
            prefix_lines.append((m.group(1), m.group(2)))
            prefixes[m.group(1)] = m.group(2)
            continue
        if not in_body and cur is not None and s == '{':
            in_body = True
            continue
        if in_body and s.startswith('}'):
            rest = s[1:].strip()
            if rest:
                m = re.match(r'^// rdfs:comment (.*)$', rest)
                if not m:
                    raise ShexParseError("bad shape closing %r" % s)
                cur['example'] = m.group(1)
            in_body = False
            cur = None
            last = None
            continue
        if not in_body:
            # shape header:  label [  [<stem>~]  AND] [   # N instance(s).]
            m = re.match(r'^(\S+)(?:\s+\[<(.*)>~\]\s+AND)?(?:\s+# (\d+) instances?\.)?$', s)
            if not m:
                raise ShexParseError("bad shape header %r" % s)
            cur = {'label_tok': m.group(1), 'label': _expand(m.group(1), prefixes), 'n': int(m.group(3)) if m.group(3) else None,
                   'stem': m.group(2), 'example': None, 'stmts': []}
            shapes.append(cur)
            continue
        if s.startswith('# '):
            m = _COMMENT.match(s)
            if not m or last is None:
                raise ShexParseError("bad comment %r" % s)
            ratio, n = _fig(m.group('fig'))
            if m.group('obj') is not None:
                last['comments'].append({'ratio': ratio, 'n': n, 'ty': canon_type(m.group('obj'), prefixes), 'card': m.group('card')})
            else:
                last['comments'].append({'ratio': ratio, 'n': n, 'ty': '~choice', 'card': m.group('card2')})
            continue
        if s.startswith('//'):
            if last is None:
                raise ShexParseError("example before any statement %r" % s)
            m = re.match(r'^// rdfs:comment (.*) ;$', s)
            if not m:
                raise ShexParseError("bad example %r" % s)
            last['comments'].append({'example': m.group(1)})
            continue
        # constraint line
        toks = s.split()
        fig = None
        if '#' in toks:
            i = toks.index('#')
            fig = " ".join(toks[i + 1:])
            toks = toks[:i]
        inv = False
        if toks and toks[0] == '^':
            inv = True
            toks = toks[1:]
        if not toks:
            raise ShexParseError("empty constraint %r" % s)
        if toks[-1].endswith(';') :
            toks[-1] = toks[-1][:-1]
            if toks[-1] == '':
                toks = toks[:-1]
            closed = True
        else:
            closed = False
        prop = _expand(toks[0], prefixes)
        rest = toks[1:]
        card = '{1}'
        if rest and _CARD.match(rest[-1]):
            card = rest[-1]
            rest = rest[:-1]
        types = []
        expect_type = True
        for t in rest:
            if expect_type:
                types.append(canon_type(t, prefixes))
                expect_type = False
            else:
                if t != 'OR':
                    raise ShexParseError("expected OR in %r" % s)
                expect_type = True
        if not types or expect_type:
            raise ShexParseError("bad value expression in %r" % s)
        ratio, n = _fig(fig) if fig is not None else (None, None)
        last = {'inv': inv, 'prop': prop, 'types': types, 'card': card, 'ratio': ratio, 'n': n,
                'prop_tok': toks[0], 'type_toks': [t for t in rest if t != 'OR'],
                'value_set': [t.startswith('[') and t.endswith(']') for t in rest if t != 'OR'],
                'has_fig': fig is not None, 'closed': closed, 'comments': []}
        cur['stmts'].append(last)
    if in_body or (cur is not None):
        raise ShexParseError("unterminated shape")
    return {'prefixes': prefix_lines, 'shapes': shapes}
