"""Failing-input search support: facts printed by the implementation, checked against the Lean
Spec (`Spec.countOver`, evaluated by the driver) — and the Python mirrors needed to phrase the queries."""
from common import *


def shape_label(class_uri, ns=SHAPES_NS):
    """mirror of utils.shapes.build_shapes_name_for_class_uri, returned as the label IRI"""
    lp = class_uri
    if '#' in lp and lp[-1] != '#':
        lp = lp[lp.rfind('#') + 1:]
    if '/' in lp:
        lp = lp[lp.rfind('/') + 1:] if lp[-1] != '/' else lp[lp[:-1].rfind('/') + 1:]
    return ns + lp


def cap_restrict(triples, cfg):
    """C16: instances_cap=k == dropping the (k+1)-th and later instantiation triples of each class
    (in target-classes mode only target classes are counted; reading stops once all are full)"""
    return [t for t, keep in zip(triples, cap_keep_flags(triples, cfg)) if keep]


def cap_keep_flags(triples, cfg):
    """per triple: does it take part in the selection of instances under instances_cap ?
    (the feature pass still sees every triple)"""
    k = cfg['cap']
    if k is None or k <= 0:
        return [True] * len(triples)
    counts = {}
    out = []
    targets = set(cfg['targets']) if cfg['target_mode'] == 'classes' else None
    for s, p, o in triples:
        keep = True
        if p == cfg['inst_prop'] and o[0] in 'IB' and (targets is None or (o[0] == 'I' and o[1] in targets)):
            c = o[1]
            if counts.get(c, 0) >= k:
                keep = False
            else:
                counts[c] = counts.get(c, 0) + 1
        out.append(keep)
    return out


def classes_for_labels(triples, cfg):
    """label IRI -> [class IRIs] for every class that can get a shape"""
    cands = []
    if cfg['target_mode'] == 'classes':
        cands += list(cfg['targets'])
    for s, p, o in triples:
        if p == cfg['inst_prop'] and o[0] in 'IB' and o[1] not in cands:
            cands.append(o[1])
    m = {}
    for c in cands:
        m.setdefault(shape_label(c, cfg['shapes_ns']), []).append(c)
    return m


def facts_of(parsed, cfg, label_map):
    """figures printed by the implementation, as spec queries"""
    facts = []
    for sh in parsed['shapes']:
        classes = label_map.get(sh['label'])
        if not classes or len(classes) != 1:
            facts.append({'kind': 'unknown-label', 'label': sh['label']})
            continue
        c = classes[0]
        if sh['n'] is not None:
            facts.append({'kind': 'size', 'class': c, 'n': sh['n'], 'label': sh['label']})
        for st in sh['stmts']:
            if st['has_fig'] and len(st['types']) == 1 and (st['n'] is not None or st['ratio'] is not None):
                facts.append({'kind': 'line', 'class': c, 'inv': st['inv'], 'prop': st['prop'], 'ty': st['types'][0],
                              'card': st['card'], 'n': st['n'], 'ratio': st['ratio'], 'label': sh['label'],
                              'maybe_generalized': bool(cfg['disable_exact']) and st['card'] == '+'})
            sib = [(cm['ty'], cm['card'], cm['n']) for cm in st['comments'] if 'example' not in cm]
            if facts and facts[-1]['kind'] == 'line' and facts[-1].get('prop') == st['prop'] and st['has_fig']:
                facts[-1]['siblings'] = sib
            for cm in st['comments']:
                if 'example' in cm or cm['ty'] == '~choice':
                    continue
                facts.append({'kind': 'comment', 'siblings': sib, 'stmt_types': st['types'], 'class': c, 'inv': st['inv'], 'prop': st['prop'], 'ty': cm['ty'],
                              'card': cm['card'], 'n': cm['n'], 'ratio': cm['ratio'], 'label': sh['label'],
                              'maybe_generalized': False})
    return facts


def spec_cfg(cfg):
    c = dict(cfg)
    c['cap'] = -1
    return c


def selection(triples, cfg):
    """python mirror of the selection (used by finding triggers only): node key -> [classes]"""
    sel = {}
    flags = cap_keep_flags(triples, cfg)
    targets = set(cfg['targets']) if cfg['target_mode'] == 'classes' else None
    for (s, p, o), keep in zip(triples, flags):
        if not keep or p != cfg['inst_prop']:
            continue
        if targets is not None and not (o[0] == 'I' and o[1] in targets):
            continue
        if o[0] not in 'IB' or s[0] not in 'IB':
            continue
        sel.setdefault(s[1], []).append(o[1])
    return sel


def has_both_kinds(triples, cfg, cls, prop, inv):
    """does some selected instance of `cls` have both an IRI and a blank-node value for (prop, dir)?"""
    sel = selection(triples, cfg)
    kinds = {}
    for s, p, o in triples:
        if p != prop:
            continue
        if not inv and s[0] in 'IB' and s[1] in sel and cls in sel[s[1]] and o[0] in 'IB':
            kinds.setdefault(s[1], set()).add(o[0])
        if inv and o[0] in 'IB' and o[1] in sel and cls in sel[o[1]] and s[0] in 'IB':
            kinds.setdefault(o[1], set()).add(s[0])
    return any(len(k) == 2 for k in kinds.values())
