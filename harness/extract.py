#!/usr/bin/env python3
"""AST -> Lean extractor (tie 1).  Reads /repo's Python sources with `ast` (shexer is not imported)
and writes lean/ShexerModel/Generated.lean: constants, tables and the small decision functions of
fragment G.  Anything outside the fragment is emitted as `<name>_untranslatable` and reported.

usage: extract.py [--repo /repo] [--out path] [--check]   (exit 0; prints 'changed' / 'unchanged')
"""
import ast, os, re, sys, json, warnings
warnings.filterwarnings("ignore")

REPO = os.environ.get("SHEXER_REPO", "/repo")
OUT = os.path.join(os.path.dirname(os.path.dirname(os.path.abspath(__file__))), "lean", "ShexerModel", "Generated.lean")


class Untranslatable(Exception):
    pass


class FallOff(Untranslatable):
    pass


def parse(rel):
    with open(os.path.join(REPO, rel)) as f:
        return ast.parse(f.read(), rel)


def module_consts(tree, known=None):
    """top-level NAME = literal (str/int/None/list of those or of known names)"""
    env = dict(known or {})
    for node in tree.body:
        if isinstance(node, ast.Assign) and len(node.targets) == 1 and isinstance(node.targets[0], ast.Name):
            try:
                env[node.targets[0].id] = const_value(node.value, env)
            except Untranslatable:
                pass
    return env


def const_value(node, env):
    if isinstance(node, ast.Constant):
        return node.value
    if isinstance(node, ast.Name) and node.id in env:
        return env[node.id]
    if isinstance(node, (ast.List, ast.Tuple)):
        return [const_value(e, env) for e in node.elts]
    if isinstance(node, ast.BinOp) and isinstance(node.op, ast.Add):
        a, b = const_value(node.left, env), const_value(node.right, env)
        if isinstance(a, str) and isinstance(b, str):
            return a + b
    if isinstance(node, ast.Call) and isinstance(node.func, ast.Attribute) and node.func.attr == 'compile' \
            and isinstance(node.func.value, ast.Name) and node.func.value.id == 're' and len(node.args) == 1:
        return ('re', const_value(node.args[0], env))
    raise Untranslatable(ast.dump(node))


def find_func(tree, name, cls=None):
    scope = tree.body
    if cls is not None:
        for n in tree.body:
            if isinstance(n, ast.ClassDef) and n.name == cls:
                scope = n.body
                break
        else:
            raise Untranslatable("class %s not found" % cls)
    for n in scope:
        if isinstance(n, ast.FunctionDef) and n.name == name:
            return n
    raise Untranslatable("function %s not found" % name)


def lstr(s):
    return '"' + s.replace('\\', '\\\\').replace('"', '\\"').replace('\n', '\\n').replace('\t', '\\t').replace('\r', '\\r') + '"'


CARD_NAMES = {'POSITIVE_CLOSURE': 'Card.plus', 'KLEENE_CLOSURE': 'Card.star', 'OPT_CARDINALITY': 'Card.opt',
              '_ONE_TO_MANY': 'Card.plus'}


class Tr:
    """translator of fragment G for one function; `types`: param name -> presence|bool|optstr|str|card|rat|nat"""

    def __init__(self, types, consts, ret):
        self.types = types
        self.consts = consts
        self.ret = ret          # 'guard' | 'occ' | 'card' | 'bool' | 'str'

    # ---------- expressions
    def name_of(self, node):
        if isinstance(node, ast.Name):
            return node.id
        if isinstance(node, ast.Attribute) and isinstance(node.value, ast.Name) and node.value.id in ('self', 'statement'):
            return node.attr.lstrip('_') if node.value.id == 'self' else node.attr
        return None

    def ty(self, node):
        n = self.name_of(node)
        return self.types.get(n) if n else None

    def value(self, node, want):
        """a constant or parameter of type `want`"""
        n = self.name_of(node)
        if n and self.types.get(n) == want:
            return n
        if want == 'card':
            if isinstance(node, ast.Name) and node.id in CARD_NAMES:
                return CARD_NAMES[node.id]
            if isinstance(node, ast.Constant) and isinstance(node.value, int) and not isinstance(node.value, bool):
                return "(Card.exact %d)" % node.value
        if want == 'optstr':
            if isinstance(node, ast.Constant) and node.value is None:
                return "none"
            if isinstance(node, ast.Name) and isinstance(self.consts.get(node.id), str):
                return "(some %s)" % lstr(self.consts[node.id])
        if want == 'str':
            if isinstance(node, ast.Name) and isinstance(self.consts.get(node.id), str):
                return lstr(self.consts[node.id])
            if isinstance(node, ast.Constant) and isinstance(node.value, str):
                return lstr(node.value)
        if want == 'nat':
            if isinstance(node, ast.Constant) and isinstance(node.value, int):
                return str(node.value)
        raise Untranslatable("value %s as %s" % (ast.dump(node), want))

    def expr(self, node):
        """boolean expression"""
        if isinstance(node, ast.BoolOp):
            op = " && " if isinstance(node.op, ast.And) else " || "
            return "(" + op.join(self.expr(v) for v in node.values) + ")"
        if isinstance(node, ast.UnaryOp) and isinstance(node.op, ast.Not):
            return "(!" + self.expr(node.operand) + ")"
        if isinstance(node, ast.Compare) and len(node.ops) == 1:
            l, op, r = node.left, node.ops[0], node.comparators[0]
            lt = self.ty(l)
            if isinstance(op, (ast.Is, ast.IsNot)) and isinstance(r, ast.Constant) and r.value is None:
                pos = isinstance(op, ast.IsNot)
                if lt == 'presence':
                    return self.name_of(l) if pos else "(!%s)" % self.name_of(l)
                if lt == 'optstr':
                    return "(%s).%s" % (self.name_of(l), "isSome" if pos else "isNone")
                raise Untranslatable("is None on " + ast.dump(l))
            if isinstance(op, (ast.In, ast.NotIn)) and isinstance(r, (ast.List, ast.Tuple)) and lt is None \
                    and r.elts and all(self.ty(e) == self.ty(r.elts[0]) and self.ty(e) is not None for e in r.elts):
                t = self.ty(r.elts[0])
                e = "(" + " || ".join("(%s == %s)" % (self.name_of(x), self.value(l, t)) for x in r.elts) + ")"
                return e if isinstance(op, ast.In) else "(!" + e + ")"
            if isinstance(op, (ast.In, ast.NotIn)) and isinstance(r, (ast.List, ast.Tuple)):
                if lt not in ('optstr', 'str', 'card'):
                    raise Untranslatable("membership on " + ast.dump(l))
                lst = "[" + ", ".join(self.value(e, lt) for e in r.elts) + "]"
                e = "(%s.contains %s)" % (lst, self.name_of(l))
                return e if isinstance(op, ast.In) else "(!" + e + ")"
            if isinstance(op, (ast.Eq, ast.NotEq)):
                # type(x) == int
                if isinstance(l, ast.Call) and isinstance(l.func, ast.Name) and l.func.id == 'type' and isinstance(r, ast.Name) \
                        and r.id == 'int' and self.ty(l.args[0]) == 'card':
                    e = "(%s).isInt" % self.name_of(l.args[0])
                    return e if isinstance(op, ast.Eq) else "(!" + e + ")"
                if lt is not None and lt == self.ty(r) and lt in ('card', 'str', 'optstr', 'nat', 'bool'):
                    e = "(%s == %s)" % (self.name_of(l), self.name_of(r))
                    return e if isinstance(op, ast.Eq) else "(!" + e + ")"
                for a, b in ((l, r), (r, l)):
                    t = self.ty(a)
                    if t in ('card', 'str', 'optstr', 'nat'):
                        e = "(%s == %s)" % (self.name_of(a), self.value(b, t))
                        return e if isinstance(op, ast.Eq) else "(!" + e + ")"
            if isinstance(op, (ast.Lt, ast.Gt, ast.LtE, ast.GtE)):
                sym = {ast.Lt: "<", ast.Gt: ">", ast.LtE: "≤", ast.GtE: "≥"}[type(op)]
                if lt == 'rat' and isinstance(r, ast.Constant) and isinstance(r.value, int):
                    n = self.name_of(l)
                    return "(decide (%sNum %s (%d : Int) * (%sDen : Int)))" % (n, sym, r.value, n)
                if lt == 'card' and isinstance(op, ast.Gt) and isinstance(r, ast.Constant) and isinstance(r.value, int):
                    return "((%s).exactGt %d)" % (self.name_of(l), r.value)
                if lt == 'nat':
                    return "(decide (%s %s %s))" % (self.name_of(l), sym, self.value(r, 'nat'))
        n = self.name_of(node)
        if n and self.types.get(n) == 'bool':
            return n
        raise Untranslatable("expr " + ast.dump(node))

    # ---------- statements
    def result(self, node):
        if self.ret == 'occ':
            if node is None or (isinstance(node, ast.Constant) and node.value is None):
                return "Occ.none"
            if isinstance(node, ast.Constant) and isinstance(node.value, int):
                return "(Occ.nat %d)" % node.value
            if self.ty(node) == 'card':
                return "(%s).asOcc" % self.name_of(node)
        if self.ret == 'card':
            return self.value(node, 'card')
        if self.ret == 'bool':
            if isinstance(node, ast.Constant) and isinstance(node.value, bool):
                return "true" if node.value else "false"
            return self.expr(node)
        if self.ret == 'str':
            return self.strexpr(node)
        raise Untranslatable("result " + (ast.dump(node) if node else 'None'))

    def strexpr(self, node):
        if isinstance(node, ast.Constant) and isinstance(node.value, str):
            return lstr(node.value)
        if isinstance(node, ast.BinOp) and isinstance(node.op, ast.Add):
            return "(" + self.strexpr(node.left) + " ++ " + self.strexpr(node.right) + ")"
        if isinstance(node, ast.Call) and isinstance(node.func, ast.Name) and node.func.id == 'str' and self.ty(node.args[0]) == 'card':
            return "(%s).pyStr" % self.name_of(node.args[0])
        if self.ty(node) == 'card':
            return "(%s).pyStr" % self.name_of(node)
        raise Untranslatable("strexpr " + ast.dump(node))

    def fallthrough(self):
        return {'guard': 'Guard.ok', 'occ': 'Occ.none', 'bool': None, 'card': None, 'str': None}[self.ret]

    def block(self, stmts, rest):
        """translate `stmts`, falling through to the Lean expression `rest`"""
        if not stmts:
            if rest is None:
                raise FallOff("falls off the end without a value")
            return rest
        s, tail = stmts[0], stmts[1:]
        if isinstance(s, ast.Expr) and isinstance(s.value, ast.Constant) and isinstance(s.value.value, str):
            return self.block(tail, rest)   # docstring
        if isinstance(s, ast.Pass):
            return self.block(tail, rest)
        if isinstance(s, ast.Return):
            return self.result(s.value)
        if isinstance(s, ast.Raise):
            exc = s.exc
            name = exc.func.id if isinstance(exc, ast.Call) and isinstance(exc.func, ast.Name) else (exc.id if isinstance(exc, ast.Name) else None)
            if self.ret != 'guard' or name is None:
                raise Untranslatable("raise in non-guard")
            return "Guard.valueError" if name == 'ValueError' else "(Guard.otherError %s)" % lstr(name)
        if isinstance(s, ast.If):
            try:
                cont = self.block(tail, rest)
            except FallOff:
                cont = None
            return "(if %s then %s else %s)" % (self.expr(s.test), self.block(s.body, cont), self.block(s.orelse, cont))
        if isinstance(s, ast.Expr) and isinstance(s.value, ast.Call):
            g = self.guard_call(s.value)
            if g is not None:
                return "(Guard.andThen %s %s)" % (g, self.block(tail, rest))
        raise Untranslatable("stmt " + ast.dump(s))

    def guard_call(self, call):
        f = call.func
        if isinstance(f, ast.Name) and f.id == 'check_just_one_not_none':
            items = []
            for a in call.args:
                if not (isinstance(a, ast.Tuple) and len(a.elts) == 2 and self.ty(a.elts[0]) == 'presence'):
                    raise Untranslatable("check_just_one_not_none argument")
                items.append(self.name_of(a.elts[0]))
            return "(check_just_one_not_none [%s])" % ", ".join(items)
        return None


def lean_params(params, types):
    m = {'presence': 'Bool', 'bool': 'Bool', 'optstr': 'Option String', 'str': 'String', 'card': 'Card', 'nat': 'Nat'}
    out = []
    for p in params:
        t = types[p]
        if t == 'rat':
            out.append("(%sNum : Int) (%sDen : Nat)" % (p, p))
        else:
            out.append("(%s : %s)" % (p, m[t]))
    return " ".join(out)


def translate_function(out, report, lean_name, fn, types, consts, ret, skip_self=True):
    params = [a.arg for a in fn.args.args if not (skip_self and a.arg == 'self')]
    rt = {'guard': 'Guard', 'occ': 'Occ', 'card': 'Card', 'bool': 'Bool', 'str': 'String'}[ret]
    try:
        for p in params:
            if p not in types:
                raise Untranslatable("untyped parameter " + p)
        tr = Tr(types, consts, ret)
        body = tr.block(fn.body, tr.fallthrough())
        out.append("def %s %s : %s :=\n  %s\n" % (lean_name, lean_params(params, types), rt, body))
        report[lean_name] = 'translated'
        return params
    except Untranslatable as e:
        out.append("def %s_untranslatable : Unit := ()  -- %s\n" % (lean_name, str(e)[:200].replace("\n", " ")))
        report[lean_name] = 'UNTRANSLATABLE: ' + str(e)[:200]
        return None


INIT_TYPES = {'graph_file_input': 'presence', 'graph_list_of_files_input': 'presence', 'raw_graph': 'presence',
              'url_graph_input': 'presence', 'list_of_url_input': 'presence', 'url_endpoint': 'presence',
              'rdflib_graph': 'presence', 'target_classes': 'presence', 'file_target_classes': 'presence',
              'shape_map_file': 'presence', 'shape_map_raw': 'presence', 'all_classes_mode': 'bool',
              'disable_or_statements': 'bool', 'allow_redundant_or': 'bool', 'input_format': 'str',
              'compression_mode': 'optstr', 'examples_mode': 'optstr'}
CALL_TYPES = {'string_output': 'bool', 'output_file': 'presence', 'to_uml_path': 'presence', 'output_format': 'str',
              'acceptance_threshold': 'rat'}

CHECK_PARAM_TYPES = {
    '_check_correct_output_params': {'string_output': 'bool', 'target_file': 'presence', 'to_uml_path': 'presence'},
    '_check_input_format': {'input_format': 'str'},
    '_check_compression_mode': {'compression_mode': 'optstr', 'url_endpoint': 'presence', 'url_graph_input': 'presence',
                                'list_of_url_input': 'presence'},
    '_check_target_classes': {'target_classes': 'presence', 'file_target_classes': 'presence', 'all_classes_mode': 'bool',
                              'shape_map_file': 'presence', 'shape_map_raw': 'presence'},
    '_check_output_format': {'output_format': 'str'},
    '_check_or_config': {'or_disabled': 'bool', 'enable_redundant': 'bool'},
    '_check_aceptance_threshold': {'aceptance_threshold': 'rat'},
    '_check_examples_mode': {'examples_mode': 'optstr'},
}


def translate_just_one(out, report, tree):
    """check_just_one_not_none: the counting loop over (value, name) tuples"""
    name = 'check_just_one_not_none'
    try:
        fn = find_func(tree, name)
        b = [s for s in fn.body if not (isinstance(s, ast.Expr) and isinstance(s.value, ast.Constant))]
        ok = (len(b) == 3 and isinstance(b[0], ast.Assign) and isinstance(b[0].value, ast.Constant) and b[0].value.value == 0
              and isinstance(b[1], ast.For) and len(b[1].body) == 1 and isinstance(b[1].body[0], ast.If)
              and isinstance(b[2], ast.If))
        if not ok or fn.args.vararg is None:
            raise Untranslatable("unexpected shape")
        cnt = b[0].targets[0].id
        loop = b[1]
        test = loop.body[0].test   # a_tuple[0] is not None
        if not (isinstance(test, ast.Compare) and isinstance(test.ops[0], (ast.IsNot, ast.Is)) and isinstance(test.left, ast.Subscript)
                and isinstance(test.left.slice, ast.Constant) and test.left.slice.value == 0
                and isinstance(test.comparators[0], ast.Constant) and test.comparators[0].value is None):
            raise Untranslatable("loop test")
        counted = "true" if isinstance(test.ops[0], ast.IsNot) else "false"
        inc = loop.body[0].body
        if not (len(inc) == 1 and isinstance(inc[0], ast.AugAssign) and isinstance(inc[0].op, ast.Add)
                and isinstance(inc[0].value, ast.Constant) and inc[0].value.value == 1 and inc[0].target.id == cnt and not loop.body[0].orelse):
            raise Untranslatable("loop body")
        fin = b[2]
        c = fin.test
        if not (isinstance(c, ast.Compare) and isinstance(c.left, ast.Name) and c.left.id == cnt and isinstance(c.comparators[0], ast.Constant)
                and len(fin.body) == 1 and isinstance(fin.body[0], ast.Raise) and not fin.orelse):
            raise Untranslatable("final test")
        sym = {ast.NotEq: "!=", ast.Eq: "==", ast.Gt: ">", ast.Lt: "<", ast.GtE: "≥", ast.LtE: "≤"}[type(c.ops[0])]
        exc = fin.body[0].exc
        ename = exc.func.id if isinstance(exc, ast.Call) else exc.id
        res = "Guard.valueError" if ename == 'ValueError' else "(Guard.otherError %s)" % lstr(ename)
        out.append("def %s (present : List Bool) : Guard :=\n  if decide ((present.count %s) %s %d) then %s else Guard.ok\n"
                   % (name, counted, sym.replace("!=", "≠").replace("==", "="), c.comparators[0].value, res))
        report[name] = 'translated'
    except (Untranslatable, KeyError, AttributeError) as e:
        out.append("def %s_untranslatable : Unit := ()  -- %s\n" % (name, str(e)[:200]))
        report[name] = 'UNTRANSLATABLE: ' + str(e)[:200]


class GuardTr(Tr):
    """bodies that call check_just_one_not_none / self._check_* (Shaper.__init__, shex_graph, …)"""

    def __init__(self, types, consts, check_params, argmap=None):
        super().__init__(types, consts, 'guard')
        self.check_params = check_params
        self.argmap = argmap or {}

    def arg(self, node, want):
        n = self.name_of(node)
        if n is not None:
            n = self.argmap.get(n, n)
        if isinstance(node, ast.Constant) and node.value is None and want == 'presence':
            return "false"
        if n is None or n not in self.types:
            raise Untranslatable("argument " + ast.dump(node))
        have = self.types[n]
        if have == 'rat' and want == 'rat':
            return "a.thNum a.thDen"
        if have != want and not (have in ('bool', 'presence') and want in ('bool', 'presence')):
            raise Untranslatable("argument %s: %s passed as %s" % (n, have, want))
        return "a." + n

    def guard_call(self, call):
        f = call.func
        if isinstance(f, ast.Name) and f.id == 'check_just_one_not_none':
            items = []
            for a in call.args:
                if not (isinstance(a, ast.Tuple) and len(a.elts) == 2):
                    raise Untranslatable("check_just_one_not_none argument")
                items.append(self.arg(a.elts[0], 'presence'))
            return "(check_just_one_not_none [%s])" % ", ".join(items)
        if isinstance(f, ast.Attribute) and f.attr in self.check_params and isinstance(f.value, ast.Name) and f.value.id == 'self':
            params = self.check_params[f.attr]
            if params is None:
                raise Untranslatable("call of untranslated " + f.attr)
            names, types = params
            bound = {}
            if len(call.args) > len(names):
                raise Untranslatable("too many arguments")
            for i, a in enumerate(call.args):
                bound[names[i]] = a
            for kw in call.keywords:
                if kw.arg not in names or kw.arg in bound:
                    return "(Guard.otherError \"TypeError\")"
                bound[kw.arg] = kw.value
            if set(bound) != set(names):
                # Python raises TypeError for a missing positional argument
                return "(Guard.otherError \"TypeError\")"
            return "(%s %s)" % (f.attr.lstrip('_'), " ".join(self.arg(bound[n], types[n]) for n in names))
        return None


def leading_guard_calls(fn):
    """the maximal prefix of calls to checks in a method body (docstring skipped)"""
    stmts = []
    for s in fn.body:
        if isinstance(s, ast.Expr) and isinstance(s.value, ast.Constant):
            continue
        if isinstance(s, ast.Expr) and isinstance(s.value, ast.Call):
            f = s.value.func
            if (isinstance(f, ast.Name) and f.id == 'check_just_one_not_none') or \
               (isinstance(f, ast.Attribute) and f.attr.startswith('_check_')):
                stmts.append(s)
                continue
        break
    return stmts


FALLBACKS = {'check_just_one_not_none': "(present : List Bool) : Guard := Fallback.check_just_one_not_none present",
             'min_occurs_from_cardinality': "(c : Card) : Occ := Fallback.min_occurs_from_cardinality c",
             'max_occurs_from_cardinality': "(c : Card) : Occ := Fallback.max_occurs_from_cardinality c",
             'most_general_cardinality': "(a b : Card) : Card := Fallback.most_general_cardinality a b",
             'relax_cardinality': "(o : Bool) (c : Card) : Card := Fallback.relax_cardinality o c\ndef relax_trigger (n N : Nat) : Bool := Fallback.relax_trigger n N",
             'generalize_cardinality': "(c : Card) : Card := Fallback.generalize_cardinality c",
             'threshold_keeps': "(n N a b : Nat) : Bool := Fallback.threshold_keeps n N a b",
             'cardinality_representation': "(c : Card) (o : Bool) : String := Fallback.cardinality_representation c o"}


def apply_fallbacks(text):
    """an untranslatable function keeps the model compiling through its hand-written counterpart"""
    import re
    def sub(m):
        name = m.group(1)
        if name in FALLBACKS:
            return "def %s_untranslatable : Unit := ()%s\ndef %s %s\n" % (name, m.group(2), name, FALLBACKS[name])
        return m.group(0)
    return re.sub(r"def (\w+)_untranslatable : Unit := \(\)([^\n]*)\n", sub, text)


def main():
    global REPO, OUT
    args = sys.argv[1:]
    if '--repo' in args:
        REPO = args[args.index('--repo') + 1]
    if '--out' in args:
        OUT = args[args.index('--out') + 1]
    out = []
    report = {}
    out.append("import ShexerModel.Base.Types\nimport ShexerModel.Base.Fallback\n/-! GENERATED by harness/extract.py from the Python AST of the repository under test.\nDo not edit: rewritten on every run. -/\nnamespace Shexer\n")
    out.append("def Card.pyStr : Card → String\n  | Card.exact k => toString k\n  | Card.plus => PLACEHOLDER_PLUS\n  | Card.star => PLACEHOLDER_STAR\n  | Card.opt => PLACEHOLDER_OPT\n")
    out.append("namespace Gen\n")

    consts = {}
    consts.update(module_consts(parse("shexer/consts.py")))
    elem = module_consts(parse("shexer/model/const_elem_types.py"))
    st = module_consts(parse("shexer/model/statement.py"))
    shape = module_consts(parse("shexer/model/shape.py"))
    fconsts = module_consts(parse("shexer/io/shex/formater/consts.py"))
    uri = module_consts(parse("shexer/utils/uri.py"), shape)
    nsmod = module_consts(parse("shexer/utils/namespaces.py"))
    pconsts = module_consts(parse("shexer/core/profiling/consts.py"))
    miniri = module_consts(parse("shexer/core/shexing/strategy/minimal_iri_strategy/annotate_min_iri_strategy.py"))
    ttl = module_consts(parse("shexer/io/graph/yielder/big_ttl_triples_yielder.py"))

    def emit_str(name, val):
        out.append("def %s : String := %s" % (name, lstr(val)))

    def emit_strs(name, vals):
        out.append("def %s : List String := [%s]" % (name, ", ".join(lstr(v) for v in vals)))

    for k in ['SHEXC', 'SHACL_TURTLE', 'NT', 'TSV_SPO', 'TURTLE', 'TURTLE_ITER', 'RDF_XML', 'N3', 'JSON_LD', 'JSON',
              'FIXED_SHAPE_MAP', 'RDF_TYPE', 'SHAPES_DEFAULT_NAMESPACE', 'ZIP', 'GZ', 'XZ', 'RATIO_INSTANCES',
              'ABSOLUTE_INSTANCES', 'MIXED_INSTANCES', 'SHAPE_EXAMPLES', 'CONSTRAINT_EXAMPLES', 'ALL_EXAMPLES']:
        emit_str(k, consts.get(k, "<missing>"))
    for k in ['BNODE_ELEM_TYPE', 'IRI_ELEM_TYPE', 'DOT_ELEM_TYPE', 'LITERAL_ELEM_TYPE', 'NONLITERAL_ELEM_TYPE']:
        emit_str(k, elem.get(k, "<missing>"))
    for k in ['POSITIVE_CLOSURE', 'KLEENE_CLOSURE', 'OPT_CARDINALITY']:
        emit_str(k, st.get(k, "<missing>"))
    emit_str('STARTING_CHAR_FOR_SHAPE_NAME', shape.get('STARTING_CHAR_FOR_SHAPE_NAME', "<missing>"))
    emit_str('ONE_TO_MANY', pconsts.get('_ONE_TO_MANY', "<missing>"))
    for k in ['XSD_NAMESPACE', 'RDF_SYNTAX_NAMESPACE', 'DT_NAMESPACE', 'OPENGIS_NAMESPACE', 'LANG_STRING_TYPE', 'STRING_TYPE',
              'FLOAT_TYPE', 'INTEGER_TYPE', 'XSD_PREFIX', 'RDF_PREFIX', 'DT_PREFIX', 'OPENGIS_PREFIX']:
        emit_str(k, uri.get(k, "<missing>"))
    for k in ['SPACES_GAP_FOR_FREQUENCY', 'SPACES_GAP_BETWEEN_TOKENS', 'SPACES_LEVEL_INDENTATION', 'COMMENT_INI', 'SHAPE_LINK_CHAR']:
        emit_str(k, fconsts.get(k, "<missing>"))
    out.append("def TARGET_LINE_LENGHT : Nat := %d" % fconsts.get('TARGET_LINE_LENGHT', 0))
    emit_strs('PRIORITY_PREFIXES_FOR_SHAPES', nsmod.get('_PRIORITY_PREFIXES_FOR_SHAPES', []))
    emit_strs('SHACL_PRIORITY_PREFIXES', module_consts(parse("shexer/io/shacl/formater/shacl_serializer.py")).get('_SHACL_PRIORITY_PREFIXES', []))
    emit_strs('TTL_CLOSURES', ttl.get('_CLOSURES', []))
    emit_strs('TTL_RDF_TYPE_CONTRACTED', ttl.get('_RDF_TYPE_CONTRACTED', []))
    emit_strs('TTL_INI_BASE_URIS', ttl.get('_INI_BASE_URIS', []))
    for k in ['_OTHER_BLANKS', '_SEVERAL_BLANKS', '_QUOTES_FOR_LITERALS', '_INIT_INLINE_COMMENT']:
        v = ttl.get(k)
        emit_str('TTL_RE' + k, v[1] if isinstance(v, tuple) else "<missing>")
    v = miniri.get('_SEP_CHARS')
    emit_str('MIN_IRI_SEP_CHARS_RE', v[1] if isinstance(v, tuple) else "<missing>")

    text = "\n".join(out)
    text = text.replace("PLACEHOLDER_PLUS", lstr(st.get('POSITIVE_CLOSURE', '<missing>'))) \
               .replace("PLACEHOLDER_STAR", lstr(st.get('KLEENE_CLOSURE', '<missing>'))) \
               .replace("PLACEHOLDER_OPT", lstr(st.get('OPT_CARDINALITY', '<missing>')))
    out = [text, ""]

    allc = dict(consts); allc.update(elem); allc.update(st); allc.update(uri)

    # ---- the guard
    translate_just_one(out, report, parse("shexer/utils/obj_references.py"))
    shaper = parse("shexer/shaper.py")
    check_params = {}
    for cname, types in CHECK_PARAM_TYPES.items():
        try:
            fn = find_func(shaper, cname, 'Shaper')
            names = translate_function(out, report, cname.lstrip('_'), fn, types, allc, 'guard')
            check_params[cname] = (names, types) if names is not None else None
        except Untranslatable as e:
            out.append("def %s_untranslatable : Unit := ()  -- %s\n" % (cname.lstrip('_'), str(e)[:100]))
            report[cname.lstrip('_')] = 'UNTRANSLATABLE: ' + str(e)[:200]
            check_params[cname] = None
    for lean_name, meth, types, argty, argmap in (
            ('init_guard', '__init__', INIT_TYPES, 'InitArgs', {}),
            ('shex_graph_guard', 'shex_graph', CALL_TYPES, 'CallArgs', {}),
            ('profile_graph_guard', 'profile_graph', CALL_TYPES, 'CallArgs', {})):
        try:
            fn = find_func(shaper, meth, 'Shaper')
            calls = leading_guard_calls(fn)
            tr = GuardTr(types, allc, check_params, argmap)
            body = tr.block(calls, "Guard.ok")
            out.append("def %s (a : %s) : Guard :=\n  %s\n" % (lean_name, argty, body))
            out.append("def %s_nchecks : Nat := %d\n" % (lean_name, len(calls)))
            report[lean_name] = 'translated (%d checks)' % len(calls)
        except Untranslatable as e:
            out.append("def %s_untranslatable : Unit := ()  -- %s\n" % (lean_name, str(e)[:200]))
            report[lean_name] = 'UNTRANSLATABLE: ' + str(e)[:200]

    # ---- cardinality maps
    shacl = parse("shexer/io/shacl/formater/shacl_serializer.py")
    for nm in ('_min_occurs_from_cardinality', '_max_occurs_from_cardinality'):
        try:
            translate_function(out, report, nm.lstrip('_'), find_func(shacl, nm, 'ShaclSerializer'), {'cardinality': 'card'}, allc, 'occ')
        except Untranslatable as e:
            out.append("def %s_untranslatable : Unit := ()\n" % nm.lstrip('_')); report[nm.lstrip('_')] = 'UNTRANSLATABLE: ' + str(e)[:200]
    absh = parse("shexer/core/shexing/strategy/abstract_shexing_strategy.py")
    try:
        translate_function(out, report, 'most_general_cardinality', find_func(absh, '_most_general_cardinality', 'MergeableConstraints'),
                           {'a_card1': 'card', 'a_card2': 'card'}, allc, 'card')
    except Untranslatable as e:
        out.append("def most_general_cardinality_untranslatable : Unit := ()\n"); report['most_general_cardinality'] = 'UNTRANSLATABLE: ' + str(e)[:200]
    extra_funcs(out, report, absh, allc)
    macro_mapping(out, report, shacl, allc)

    out.append("end Gen\nend Shexer\n")
    changed_s = string_fragment(report, uri, shape)
    model_fingerprints(report)
    text = apply_fallbacks("\n".join(out))
    changed = True
    if os.path.exists(OUT):
        with open(OUT) as f:
            changed = f.read() != text
    if changed and '--check' not in args:
        with open(OUT, "w") as f:
            f.write(text)
    rep_path = OUT + ".report.json"
    with open(rep_path, "w") as f:
        json.dump(report, f, indent=1, sort_keys=True)
    print("changed" if (changed or changed_s) else "unchanged")
    for k, v in sorted(report.items()):
        if v.startswith('UNTRANSLATABLE'):
            print("UNTRANSLATABLE", k, v)


# hand-written Lean definitions and the Python functions they mirror (modelled, not verified): the extractor records a
# fingerprint of each function's AST so that evidence files say which version of the code every model was compared with
MODELLED = {
    "Model/Tracker.lean": [("shexer/core/instances/instance_tracker.py", "InstanceTracker", "track_instances"),
                           ("shexer/core/instances/annotators/base_annotator.py", "BaseAnnotator", "_get_proper_strategy")],
    "Model/Profiler.lean": [("shexer/core/profiling/class_profiler.py", "ClassProfiler", "profile_classes"),
                            ("shexer/core/profiling/strategy/abstract_feature_direction_strategy.py", "AbstractFeatureDirectionStrategy", "_annotate_target_subject"),
                            ("shexer/core/profiling/strategy/abstract_feature_direction_strategy.py", "AbstractFeatureDirectionStrategy", "_introduce_needed_elements_in_shape_instances_dict_for_subj"),
                            ("shexer/core/profiling/strategy/abstract_feature_direction_strategy.py", "AbstractFeatureDirectionStrategy", "_infer_valid_cardinalities")],
    "Model/Shexer.lean, Model/MergeE.lean": [("shexer/core/shexing/class_shexer.py", "ClassShexer", "shex_classes"),
                          ("shexer/core/shexing/strategy/abstract_shexing_strategy.py", "AbstractShexingStrategy", "_group_constraints_with_same_prop_and_obj"),
                          ("shexer/core/shexing/strategy/abstract_shexing_strategy.py", "AbstractShexingStrategy", "_decide_best_statement_with_cardinalities_in_comments"),
                          ("shexer/core/shexing/strategy/abstract_shexing_strategy.py", "AbstractShexingStrategy", "_group_node_constraints"),
                          ("shexer/core/shexing/strategy/abstract_shexing_strategy.py", "MergeableConstraints", "merge_group"),
                          ("shexer/core/shexing/strategy/abstract_shexing_strategy.py", "MergeableConstraints", "_bnode_merging_strategy"),
                          ("shexer/core/shexing/strategy/abstract_shexing_strategy.py", "MergeableConstraints", "_no_bnode_merging_strategy"),
                          ("shexer/core/shexing/strategy/abstract_shexing_strategy.py", "MergeableConstraints", "_tune_dominant_constraint_wrt_or_config"),
                          ("shexer/core/shexing/class_shexer.py", "ClassShexer", "_clean_empty_shapes")],
    "Model/Nt.lean": [("shexer/io/graph/yielder/nt_triples_yielder.py", "NtTriplesYielder", "yield_triples"),
                      ("shexer/io/graph/yielder/nt_triples_yielder.py", "NtTriplesYielder", "_look_for_tokens"),
                      ("shexer/io/graph/yielder/nt_triples_yielder.py", "NtTriplesYielder", "_look_for_last_index_before_blank"),
                      ("shexer/io/graph/yielder/nt_triples_yielder.py", "NtTriplesYielder", "_look_for_last_index_of_literal_token"),
                      ("shexer/io/graph/yielder/nt_triples_yielder.py", "NtTriplesYielder", "_look_for_index_of_closing_quotes"),
                      ("shexer/utils/triple_yielders.py", None, "tune_token"), ("shexer/utils/triple_yielders.py", None, "tune_prop")],
    "Model/Ttl.lean": [("shexer/io/graph/yielder/big_ttl_triples_yielder.py", "BigTtlTriplesYielder", n) for n in (
        "yield_triples", "_clean_line", "_remove_comments_if_needed", "_process_line_2", "_process_line_with_potential_triples",
        "_assing_tmp_element_and_promote_state", "_next_line_token", "_find_next_blank", "_find_next_unescaped_quotes",
        "_find_next_quoted_literal_ending", "_process_prefix_line", "_process_base_line", "_parse_elem",
        "_expand_prefixed_datatype_if_needed", "_parse_cornered_element")] + [("shexer/utils/triple_yielders.py", None, "tune_subj")],
    "Model/Tsv.lean": [("shexer/io/graph/yielder/tsv_nt_triples_yielder.py", "TsvNtTriplesYielder", "yield_triples"),
                       ("shexer/io/graph/yielder/multifile_base_triples_yielder.py", "MultifileBaseTripleYielder", "yield_triples")],
    "Model/History.lean": [("shexer/shaper.py", "Shaper", "shex_graph"), ("shexer/shaper.py", "Shaper", "profile_graph"),
                           ("shexer/io/shex/formater/shex_serializer.py", "ShexSerializer", "_write_line"),
                           ("shexer/io/shex/formater/shex_serializer.py", "ShexSerializer", "_write_lines_buffer")],
    "Model/Endpoint.lean": [("shexer/model/graph/endpoint_sgraph.py", "EndpointSGraph", n) for n in (
        "_yield_local_p_o_triples_of_an_s", "_yield_local_s_p_triples_of_an_o", "_yield_local_class_triples_of_an_s")] + [
        ("shexer/model/graph/abstract_sgraph.py", "SGraph", "yield_p_o_triples_of_target_nodes"),
        ("shexer/model/graph/abstract_sgraph.py", "SGraph", "yield_s_p_triples_of_target_nodes"),
        ("shexer/io/graph/yielder/remote/sgraph_from_selectors_triple_yielder.py", "SgraphFromSelectorsTripleYielder", "_yield_relevant_sgraph_triples")],
    "Model/MinIri.lean": [("shexer/core/profiling/class_profiler.py", "ClassProfiler", "_update_shape_min_iri"),
                          ("shexer/utils/uri.py", None, "longest_common_prefix"),
                          ("shexer/core/shexing/strategy/minimal_iri_strategy/annotate_min_iri_strategy.py", "AnnotateMinIriStrategy", "_determine_suitable_iri_pattern")],
    "Model/Text.lean": [("shexer/utils/namespaces.py", None, "find_adequate_prefix_for_shapes_namespaces"),
                        ("shexer/utils/uri.py", None, "prefixize_uri_if_possible")],
    "Model/Shacl.lean": [("shexer/io/shacl/formater/shacl_serializer.py", "ShaclSerializer", n) for n in (
        "_add_shape", "_add_regular_constraint", "_add_instantiation_constraint", "_add_node_type", "_add_cardinality")],
    "Model/Targets.lean": [("shexer/io/shape_map/shape_map_parser.py", None, None)],
    "Model/CountE.lean": [("shexer/core/profiling/strategy/abstract_feature_direction_strategy.py", "AbstractFeatureDirectionStrategy", "_introduce_needed_elements_in_shape_classes_dict"),
                          ("shexer/core/profiling/strategy/include_reverse_features_strategy.py", "IncludeReverseFeaturesStrategy", "init_annotated_targets")],
}


def model_fingerprints(report):
    import hashlib
    for lean_file, funcs in MODELLED.items():
        for rel, cls, name in funcs:
            key = "modelled:%s <- %s:%s%s" % (lean_file, rel, (cls + ".") if cls else "", name or "*")
            try:
                tree = parse(rel)
                node = tree if name is None else find_func(tree, name, cls)
                report[key] = "sha1:" + hashlib.sha1(ast.unparse(node).encode()).hexdigest()[:12]      # the unparsed source: the same under every interpreter version
            except (Untranslatable, OSError, SyntaxError) as e:
                report[key] = "MISSING: " + str(e)[:80]


def string_fragment(report, uri_consts, shape_consts):
    """fragment S: string functions -> lean/ShexerModel/GeneratedStr.lean (namespace Shexer.GenS). A function that no longer
    translates is simply absent, so the equivalence theorems of Props/GenStr{Corners,Literal,ShapeName}.lean stop building: a broken obligation."""
    import extract_str as XS
    out = ["import ShexerModel.Base.PyOps",
           "/-! GENERATED by harness/extract.py (fragment S) from /repo's Python AST - do not edit. -/",
           "namespace Shexer", "namespace GenS", "open PyOps", ""]
    assumptions = set()
    consts = dict(uri_consts)
    consts['STARTING_CHAR_FOR_SHAPE_NAME'] = shape_consts.get('STARTING_CHAR_FOR_SHAPE_NAME', '<missing>')
    more_consts = {}
    for rel_c in ("shexer/model/const_elem_types.py", "shexer/io/shex/formater/consts.py"):
        try:
            more_consts.update({k: v for k, v in module_consts(parse(rel_c)).items() if isinstance(v, str) and k not in consts})
        except (OSError, SyntaxError):
            pass
    jobs = [("shexer/utils/uri.py", None, 'remove_corners', 'remove_corners', {'a_uri': 'str', 'raise_error_if_no_corners': 'bool'}, 'str'),
            ("shexer/utils/uri.py", None, 'decide_literal_type', 'decide_literal_type', {'a_literal': 'str', 'base_namespace': 'optstr'}, 'str'),
            ("shexer/utils/uri.py", None, 'longest_common_prefix', 'longest_common_prefix', {'uri1': 'str', 'uri2': 'str'}, 'str'),
            ("shexer/core/shexing/strategy/minimal_iri_strategy/annotate_min_iri_strategy.py", 'AnnotateMinIriStrategy', '_determine_suitable_iri_pattern',
             'determine_suitable_iri_pattern', {'longest_common_prefix': 'optstr'}, 'optstr'),
            ("shexer/utils/triple_yielders.py", None, 'check_if_property_belongs_to_namespace_list', 'check_if_property_belongs_to_namespace_list',
             {'str_prop': 'str', 'namespaces': 'strlist'}, 'bool'),
            ("shexer/io/shex/formater/statement_serializers/base_statement_serializer.py", 'BaseStatementSerializer', '_prefixize_uri_if_possible',
             'serializer_prefixize_uri_if_possible', {'uri': 'str', 'namespaces_dict': 'strdict'}, 'optstr'),
            ("shexer/utils/shapes.py", None, 'build_shapes_name_for_class_uri', 'build_shapes_name_for_class_uri',
             {'class_uri': 'str', 'shapes_namespace': 'str'}, 'str'),
            ("shexer/utils/translators/list_of_classes_to_shape_map.py", 'ListOfClassesToShapeMap', '_get_shape_label_for_class_uri',
             'get_shape_label_for_class_uri', {'class_uri': 'str'}, 'str'),
            ("shexer/utils/uri.py", None, 'add_corners', 'add_corners', {'a_uri': 'str'}, 'str'),
            ("shexer/utils/uri.py", None, 'add_corners_if_needed', 'add_corners_if_needed', {'a_uri': 'str'}, 'str'),
            ("shexer/utils/uri.py", None, 'add_corners_if_it_is_an_uri', 'add_corners_if_it_is_an_uri', {'a_candidate_uri': 'str'}, 'str'),
            ("shexer/utils/uri.py", None, 'there_is_arroba_after_last_quotes', 'there_is_arroba_after_last_quotes', {'target_str': 'str'}, 'bool'),
            ("shexer/utils/uri.py", None, 'unprefixize_uri_if_possible', 'unprefixize_uri_if_possible',
             {'target_uri': 'str', 'prefix_namespaces_dict': 'strdict', 'include_corners': 'bool'}, 'str'),
            ("shexer/utils/uri.py", None, 'unprefixize_uri_mandatory', 'unprefixize_uri_mandatory',
             {'target_uri': 'str', 'prefix_namespaces_dict': 'strdict', 'include_corners': 'bool'}, 'str'),
            ("shexer/utils/uri.py", None, 'prefixize_uri_if_possible', 'prefixize_uri_if_possible',
             {'target_uri': 'str', 'namespaces_prefix_dict': 'strdict', 'corners': 'bool'}, 'str'),
            ("shexer/utils/shapes.py", None, 'prefixize_shape_name_if_possible', 'prefixize_shape_name_if_possible',
             {'a_shape_name': 'str', 'namespaces_prefix_dict': 'strdict'}, 'str'),
            ("shexer/io/shex/formater/statement_serializers/base_statement_serializer.py", 'BaseStatementSerializer', 'tune_token', 'serializer_tune_token',
             {'a_token': 'str', 'namespaces_dict': 'strdict'}, 'str'),
            ("shexer/io/shex/formater/statement_serializers/base_statement_serializer.py", 'BaseStatementSerializer', 'str_of_target_element',
             'serializer_str_of_target_element',
             {'self._instantiation_property_str': 'str', 'target_element': 'str', 'st_property': 'str', 'namespaces_dict': 'strdict'}, 'str'),
            # methods of one class: the attribute they read is a leading parameter, calls between them are monadic calls
            ("shexer/io/shape_map/label/shape_map_label_parser.py", 'ShapeMapLabelParser', '_is_a_prefixed_uri', 'label_is_a_prefixed_uri',
             {'self._namespaces_prefix_dict': 'strdict', 'raw_label': 'str'}, 'bool'),
            ("shexer/io/shape_map/label/shape_map_label_parser.py", 'ShapeMapLabelParser', '_parse_prefixed_label', 'label_parse_prefixed_label',
             {'self._namespaces_prefix_dict': 'strdict', 'raw_label': 'str'}, 'str'),
            ("shexer/io/shape_map/label/shape_map_label_parser.py", 'ShapeMapLabelParser', 'parse_shape_map_label', 'parse_shape_map_label',
             {'self._namespaces_prefix_dict': 'strdict', 'raw_label': 'str'}, 'str'),
            # the N-Triples line tokenizer: index-based scans with `while` loops (fuel), callees first
            ("shexer/io/graph/yielder/nt_triples_yielder.py", 'NtTriplesYielder', '_look_for_index_of_closing_quotes', 'nt_look_for_index_of_closing_quotes',
             {'target_str': 'str', 'first_index': 'int'}, 'int'),
            ("shexer/io/graph/yielder/nt_triples_yielder.py", 'NtTriplesYielder', '_look_for_last_index_before_blank', 'nt_look_for_last_index_before_blank',
             {'target_str': 'str', 'first_index': 'int'}, 'int'),
            ("shexer/io/graph/yielder/nt_triples_yielder.py", 'NtTriplesYielder', '_look_for_last_index_of_uri_token', 'nt_look_for_last_index_of_uri_token',
             {'target_str': 'str', 'first_index': 'int'}, 'int'),
            ("shexer/io/graph/yielder/nt_triples_yielder.py", 'NtTriplesYielder', '_look_for_last_index_of_bnode_token', 'nt_look_for_last_index_of_bnode_token',
             {'target_str': 'str', 'first_index': 'int'}, 'int'),
            ("shexer/io/graph/yielder/nt_triples_yielder.py", 'NtTriplesYielder', '_look_for_last_index_of_unlabelled_number_token',
             'nt_look_for_last_index_of_unlabelled_number_token', {'target_str': 'str', 'first_index': 'int'}, 'int'),
            ("shexer/io/graph/yielder/nt_triples_yielder.py", 'NtTriplesYielder', '_look_for_last_index_of_literal_token', 'nt_look_for_last_index_of_literal_token',
             {'target_str': 'str', 'first_index': 'int'}, 'int'),
            ("shexer/io/graph/yielder/nt_triples_yielder.py", 'NtTriplesYielder', '_look_for_tokens', 'nt_look_for_tokens',
             {'str_line': 'str'}, 'strlist'),
            # from a token to the model object (the classification both line readers end with)
            ("shexer/utils/uri.py", None, 'parse_literal', 'parse_literal', {'an_elem': 'str', 'base_namespace': 'optstr'}, 'strpair'),
            ("shexer/utils/uri.py", None, 'parse_unquoted_literal', 'parse_unquoted_literal', {'an_elem': 'str'}, 'strpair'),
            ("shexer/utils/triple_yielders.py", None, 'tune_subj', 'tune_subj', {'a_token': 'str', 'raise_error_if_no_corners': 'bool'}, 'obj'),
            ("shexer/utils/triple_yielders.py", None, 'tune_prop', 'tune_prop', {'a_token': 'str', 'raise_error_if_no_corners': 'bool'}, 'obj'),
            ("shexer/utils/triple_yielders.py", None, 'tune_token', 'tune_token',
             {'a_token': 'str', 'allow_untyped_numbers': 'bool', 'raise_error_if_no_corners': 'bool', 'base_namespace': 'optstr'}, 'obj'),
            ("shexer/io/graph/yielder/tsv_nt_triples_yielder.py", 'TsvNtTriplesYielder', '_look_for_tokens', 'tsv_look_for_tokens', {'str_line': 'str'}, 'strlist'),
            # the streaming Turtle reader: comment removal and the scans of its tokenizer
            ("shexer/io/graph/yielder/big_ttl_triples_yielder.py", 'BigTtlTriplesYielder', '_remove_comments_if_needed', 'ttl_remove_comments_if_needed',
             {'str_line': 'str'}, 'str'),
            ("shexer/io/graph/yielder/big_ttl_triples_yielder.py", 'BigTtlTriplesYielder', '_find_next_blank', 'ttl_find_next_blank',
             {'target_str': 'str', 'start_index': 'int'}, 'int'),
            ("shexer/io/graph/yielder/big_ttl_triples_yielder.py", 'BigTtlTriplesYielder', '_count_prior_backslashes', 'ttl_count_prior_backslashes',
             {'an_str': 'str', 'quote_pos': 'int'}, 'int'),
            ("shexer/io/graph/yielder/big_ttl_triples_yielder.py", 'BigTtlTriplesYielder', '_find_next_unescaped_quotes', 'ttl_find_next_unescaped_quotes',
             {'target_str': 'str', 'start_index': 'int'}, 'int'),
            ("shexer/io/graph/yielder/big_ttl_triples_yielder.py", 'BigTtlTriplesYielder', '_find_next_quoted_literal_ending', 'ttl_find_next_quoted_literal_ending',
             {'target_str': 'str', 'start_index': 'int'}, 'int'),
            ("shexer/io/graph/yielder/big_ttl_triples_yielder.py", 'BigTtlTriplesYielder', '_expand_prefixed_datatype_if_needed', 'ttl_expand_prefixed_datatype_if_needed',
             {'self._prefixes': 'strdict', 'raw_literal': 'str'}, 'str'),
            ("shexer/io/graph/yielder/big_ttl_triples_yielder.py", 'BigTtlTriplesYielder', '_parse_cornered_element', 'ttl_parse_cornered_element',
             {'self._base': 'optstr', 'cornered_element': 'str'}, 'str'),
            ("shexer/io/graph/yielder/big_ttl_triples_yielder.py", 'BigTtlTriplesYielder', '_next_line_token', 'ttl_next_line_token',
             {'self._base': 'optstr', 'a_line': 'str', 'start_index': 'int'}, 'optstrint'),
            ("shexer/io/graph/yielder/big_ttl_triples_yielder.py", 'BigTtlTriplesYielder', '_clean_line', 'ttl_clean_line', {'str_line': 'str'}, 'str'),
            ("shexer/io/graph/yielder/big_ttl_triples_yielder.py", 'BigTtlTriplesYielder', '_check_directive_alone_in_its_line', 'ttl_check_directive_alone_in_its_line',
             {'line': 'str', 'pieces': 'strlist', 'expected_pieces': 'int'}, 'unit'),
            ("shexer/io/graph/yielder/big_ttl_triples_yielder.py", 'BigTtlTriplesYielder', '_process_prefix_line', 'ttl_process_prefix_line',
             {'self._prefixes': 'strdict', 'line': 'str'}, 'strpair'),
            ("shexer/io/graph/yielder/big_ttl_triples_yielder.py", 'BigTtlTriplesYielder', '_process_base_line', 'ttl_process_base_line',
             {'self._base': 'optstr', 'line': 'str'}, 'str'),
            ("shexer/io/graph/yielder/big_ttl_triples_yielder.py", 'BigTtlTriplesYielder', '_is_num_literal', 'ttl_is_num_literal', {'elem': 'str'}, 'bool'),
            ("shexer/io/graph/yielder/big_ttl_triples_yielder.py", 'BigTtlTriplesYielder', '_parse_elem', 'ttl_parse_elem',
             {'self._base': 'optstr', 'self._prefixes': 'strdict', 'raw_elem': 'str'}, 'optstr')]
    funcs = {}
    for rel, cls, pyname, lname, types, ret in jobs:
        try:
            tree = parse(rel)
            fn = find_func(tree, pyname, cls)
            local = dict(consts)
            for node in tree.body:      # module constants `P = re.compile("[...]")` that are plain character classes
                if isinstance(node, ast.Assign) and len(node.targets) == 1 and isinstance(node.targets[0], ast.Name) and isinstance(node.value, ast.Call) \
                        and isinstance(node.value.func, ast.Attribute) and node.value.func.attr == 'compile' and isinstance(node.value.func.value, ast.Name) \
                        and node.value.func.value.id == 're' and len(node.value.args) == 1 and isinstance(node.value.args[0], ast.Constant) \
                        and isinstance(node.value.args[0].value, str) and re.fullmatch(r"\[[^\]\\^\-\[]+\]", node.value.args[0].value):
                    local[node.targets[0].id] = ('charclass', node.value.args[0].value[1:-1])
            local.update(funcs.get(rel, {}))
            local.update(funcs.get((rel, cls), {}))
            for node in tree.body:      # functions of other translated modules that this module imports by name
                if isinstance(node, ast.ImportFrom):
                    for al in node.names:
                        if al.asname is None and al.name in funcs.get('*', {}):
                            local.setdefault(al.name, funcs['*'][al.name])
            for node in tree.body:      # module constants `L = ["a", "rdf:type"]`: lists of strings; `P = re.compile("  +")`
                if isinstance(node, ast.Assign) and len(node.targets) == 1 and isinstance(node.targets[0], ast.Name) and isinstance(node.value, ast.List) \
                        and node.value.elts and all(isinstance(e_, ast.Constant) and isinstance(e_.value, str) for e_ in node.value.elts):
                    local[node.targets[0].id] = ('strconstlist', [e_.value for e_ in node.value.elts])
                if isinstance(node, ast.Assign) and len(node.targets) == 1 and isinstance(node.targets[0], ast.Name) and isinstance(node.value, ast.Call) \
                        and isinstance(node.value.func, ast.Attribute) and node.value.func.attr == 'compile' and isinstance(node.value.func.value, ast.Name) \
                        and node.value.func.value.id == 're' and len(node.value.args) == 1 and isinstance(node.value.args[0], ast.Constant) \
                        and node.value.args[0].value == "  +":
                    local[node.targets[0].id] = ('several_blanks',)
            for node in tree.body:      # module constants `L = ["a", "b"]`: lists of one-character strings
                if isinstance(node, ast.Assign) and len(node.targets) == 1 and isinstance(node.targets[0], ast.Name) and isinstance(node.value, ast.List) \
                        and node.value.elts and all(isinstance(e_, ast.Constant) and isinstance(e_.value, str) and len(e_.value) == 1 for e_ in node.value.elts):
                    local[node.targets[0].id] = ('charlist', "".join(e_.value for e_ in node.value.elts))
            try:            # the string constants of the module itself
                for k_, v_ in module_consts(tree).items():
                    if isinstance(v_, str) and k_ not in local:
                        local[k_] = v_
            except Exception:
                pass
            local['__class__'] = cls
            local['__imports__'] = {al.asname or al.name: node.module or '' for node in tree.body if isinstance(node, ast.ImportFrom) for al in node.names}
            for node in tree.body:      # `_is_integer(x)`: exactly `x % 1.0 == 0`
                if isinstance(node, ast.FunctionDef) and node.name == '_is_integer' and len(node.args.args) == 1 and node.args.args[0].arg == 'float_number' \
                        and "\n".join(ast.unparse(b) for b in node.body) == XS.IS_INTEGER_BODY:
                    local['_is_integer'] = ('float_is_integer',)
            local.update(more_consts)
            ok_tr = XS.translate(out, report, assumptions, 'S.' + lname, fn, types, ret, local)
            plain = lambda t: t in ('str', 'bool', 'int', 'strdict', 'optstr')
            if ok_tr and cls is not None and ret in ('str', 'bool', 'int', 'optstr', 'unit'):
                funcs.setdefault((rel, cls), {})['self.' + pyname] = ('func', lname, [(a.arg, types[a.arg]) for a in fn.args.args if a.arg != 'self'], ret, {},
                                                                     [k for k in types if k.startswith('self.')], "(fuel : Nat)" in out[-1],
                                                                     "(resolve :" in out[-1], "(floatOf :" in out[-1])
            if ok_tr and cls is None and ret in ('str', 'bool', 'int', 'optstr', 'strpair', 'obj') \
                    and all(plain(t) for t in types.values()):
                nd = len(fn.args.defaults)
                dflt = {a.arg: d for a, d in zip(fn.args.args[len(fn.args.args) - nd:], fn.args.defaults)
                        if isinstance(d, ast.Constant) and (isinstance(d.value, (bool, str)) or d.value is None)}
                entry = ('func', lname, [(a.arg, types[a.arg]) for a in fn.args.args], ret, dflt, [], "(fuel : Nat)" in out[-1],
                         "(resolve :" in out[-1], "(floatOf :" in out[-1])
                funcs.setdefault(rel, {})[pyname] = entry
                funcs.setdefault('*', {})[pyname] = entry
        except (Untranslatable, OSError, SyntaxError) as e:
            out.append("def %s_untranslatable : Unit := ()  -- %s\n" % (lname, str(e)[:100]))
            report['S.' + lname] = 'UNTRANSLATABLE: ' + str(e)[:200]
    # dispatcher for the translator's own correspondence check (lean/StrMain.lean, harness/strcheck.py): only translated functions
    arms = []
    for rel, cls, pyname, lname, types, ret in jobs:
        if str(report.get('S.' + lname, 'UNTRANSLATABLE')).startswith('UNTRANSLATABLE'):
            continue
        header = next((l for l in out if l.startswith("def S.%s " % lname) or l.startswith("def %s " % lname)), "")
        nstr = sum(1 for t in types.values() if t == 'str')
        pat = "[" + ", ".join("s%d" % i for i in range(nstr)) + "]"
        if 'strlist' in types.values() or 'strdict' in types.values():        # the strings after the plain ones are the list / the alternating keys and values
            pat = " :: ".join(["s%d" % i for i in range(nstr)] + ["rest"])
        args, i = [], 0
        for t in types.values():
            if t == 'str':
                args.append("s%d" % i)
                i += 1
            elif t == 'bool':
                args.append("flag" if "flag" not in args else "(num != 0)")
            elif t == 'optstr':
                args.append("opt")
            elif t == 'strlist':
                args.append("rest")
            elif t == 'strdict':
                args.append("(pairs rest)")
            elif t == 'int':
                args.append("num")
        call = "%s %s%s%s%s" % (lname, "resolve " if "(resolve :" in header else "", "floatOf " if "(floatOf :" in header else "",
                                "fuel " if "(fuel : Nat)" in header else "", " ".join(args))
        arms.append('  | "%s", %s => some (%s)' % (lname, pat, call if ret == 'optstr' else "(%s).map fun b => some (if b then ['1'] else ['0'])" % call if ret == 'bool'
                                                  else "(%s).map fun i => some (toString i).toList" % call if ret == 'int'
                                                  else "(%s).map fun l => some (l.flatMap fun t => t ++ [Char.ofNat 1])" % call if ret == 'strlist'
                                                  else "(%s).map fun p => some (p.1 ++ [Char.ofNat 1] ++ p.2)" % call if ret == 'strpair'
                                                  else "(%s).map fun _ => some []" % call if ret == 'unit'
                                                  else "(%s).map fun o => some (showObj o)" % call if ret == 'obj'
                                                  else "(%s).map fun r => r.map fun p => p.1 ++ [Char.ofNat 1] ++ (toString p.2).toList" % call if ret == 'optstrint'
                                                  else "(%s).map some" % call))
    out.append("def pairs : List (List Char) → List (List Char × List Char)\n  | k :: v :: rest => (k, v) :: pairs rest\n  | _ => []\n")
    out.append("def showObj : PyOps.Obj → List Char\n  | .iri c => 'I' :: c\n  | .bnode c => 'B' :: c\n  | .prop c => 'P' :: c\n  | .lit c t => 'L' :: c ++ [Char.ofNat 1] ++ t\n")
    out.append("/-- dispatch by name for `strdriver` (the translator's correspondence check) -/")
    out.append("def dispatch (resolve : List Char → List Char → List Char) (floatOf : List Char → Option Bool) (name : String) (strs : List (List Char)) (flag : Bool)")
    out.append("    (opt : Option (List Char)) (num : Int := 0) (fuel : Nat := 0) : Option (Except PyExc (Option (List Char))) :=")
    out.append("  match name, strs with")
    out += arms
    out.append("  | _, _ => none\n")
    out.append("end GenS\nend Shexer\n")
    text = "\n".join(out).replace("def S.", "def ")
    report['S.assumptions'] = "; ".join(sorted(assumptions)) or "none"
    path = os.path.join(os.path.dirname(OUT), "GeneratedStr.lean")
    changed = True
    if os.path.exists(path):
        with open(path) as f:
            changed = f.read() != text
    if changed and '--check' not in sys.argv:
        with open(path, "w") as f:
            f.write(text)
    return changed


def macro_mapping(out, report, shacl, allc):
    """_MACRO_MAPPING of the SHACL serializer: element type -> sh:nodeKind value (or nothing)"""
    name = 'MACRO_MAPPING'
    try:
        env = {}
        ns = None
        for node in shacl.body:
            if isinstance(node, ast.Assign) and len(node.targets) == 1 and isinstance(node.targets[0], ast.Name):
                tgt, v = node.targets[0].id, node.value
                if tgt == '_SHACL_NAMESPACE':
                    ns = const_value(v, allc)
                    env[tgt] = ns
                elif isinstance(v, ast.Call) and isinstance(v.func, ast.Name) and v.func.id == 'URIRef' and len(v.args) == 1:
                    try:
                        env[tgt] = const_value(v.args[0], dict(allc, **{k: x for k, x in env.items() if isinstance(x, str)}))
                    except Untranslatable:
                        pass
                elif isinstance(v, ast.Constant) and v.value is None:
                    env[tgt] = None
                elif tgt == '_MACRO_MAPPING':
                    if not isinstance(v, ast.Dict):
                        raise Untranslatable("not a dict literal")
                    items = []
                    for k, val in zip(v.keys, v.values):
                        kk = const_value(k, allc)
                        if not isinstance(val, ast.Name) or val.id not in env:
                            raise Untranslatable("value " + ast.dump(val))
                        items.append((kk, env[val.id]))
                    out.append("def MACRO_MAPPING : List (String × Option String) := [%s]\n" % ", ".join(
                        "(%s, %s)" % (lstr(k), "none" if x is None else "some " + lstr(x)) for k, x in items))
                    out.append("def SHACL_NAMESPACE : String := %s\n" % lstr(ns or "<missing>"))
                    report[name] = 'translated'
                    return
        raise Untranslatable("_MACRO_MAPPING not found")
    except (Untranslatable, KeyError, AttributeError) as e:
        out.append("def MACRO_MAPPING_untranslatable : Unit := ()  -- %s\ndef MACRO_MAPPING : List (String × Option String) := Fallback.MACRO_MAPPING\ndef SHACL_NAMESPACE : String := \"http://www.w3.org/ns/shacl#\"\n" % str(e)[:100])
        report[name] = 'UNTRANSLATABLE: ' + str(e)[:200]


def extra_funcs(out, report, absh, allc):
    """decision expressions embedded in larger methods"""
    # 1. the cardinality chosen by _change_statement_cardinality_to_all_compliant:
    #    statement.cardinality = OPT if self._allow_opt_cardinality and statement.cardinality == 1 else KLEENE
    name = 'relax_cardinality'
    try:
        fn = find_func(absh, '_change_statement_cardinality_to_all_compliant', 'AbstractShexingStrategy')
        target = None
        for s in fn.body:
            if isinstance(s, ast.Assign) and isinstance(s.targets[0], ast.Attribute) and s.targets[0].attr == 'cardinality':
                target = s.value
        if not isinstance(target, ast.IfExp):
            raise Untranslatable("no conditional assignment to statement.cardinality")
        tr = Tr({'allow_opt_cardinality': 'bool', 'cardinality': 'card'}, allc, 'card')
        out.append("def %s (allow_opt_cardinality : Bool) (cardinality : Card) : Card :=\n  if %s then %s else %s\n" % (
            name, tr.expr(target.test), tr.value(target.body, 'card'), tr.value(target.orelse, 'card')))
        # the guard of the caller: `if a_statement.probability != 1`
        caller = find_func(absh, '_modify_cardinalities_of_statements_non_compliant_with_all_instances', 'AbstractShexingStrategy')
        test = caller.body[0].body[0].test
        if not (isinstance(test, ast.Compare) and isinstance(test.left, ast.Attribute) and test.left.attr == 'probability'
                and isinstance(test.comparators[0], ast.Constant) and test.comparators[0].value == 1):
            raise Untranslatable("relaxation trigger")
        sym = {ast.NotEq: "≠", ast.Lt: "<", ast.Eq: "=", ast.LtE: "≤", ast.Gt: ">", ast.GtE: "≥"}[type(test.ops[0])]
        out.append("/-- trigger of the relaxation: `probability %s 1` with probability = n / N (N > 0) -/\ndef relax_trigger (n N : Nat) : Bool := decide (n %s N)\n" % (sym, sym))
        report[name] = 'translated'
    except (Untranslatable, IndexError, AttributeError, KeyError) as e:
        out.append("def %s_untranslatable : Unit := ()\n" % name); report[name] = 'UNTRANSLATABLE: ' + str(e)[:200]
    # 2. _generalize_exact_cardinalities: if type(c) == int and c > 1: c = POSITIVE_CLOSURE
    name = 'generalize_cardinality'
    try:
        fn = find_func(absh, '_generalize_exact_cardinalities', 'AbstractShexingStrategy')
        loop = fn.body[0]
        cond = loop.body[0]
        assign = cond.body[0]
        tr = Tr({'cardinality': 'card'}, allc, 'card')
        if not (isinstance(loop, ast.For) and isinstance(cond, ast.If) and not cond.orelse and isinstance(assign, ast.Assign)
                and assign.targets[0].attr == 'cardinality'):
            raise Untranslatable("shape")

        class R(ast.NodeTransformer):
            def visit_Attribute(self, node):
                if node.attr == 'cardinality':
                    return ast.Name(id='cardinality', ctx=ast.Load())
                return node
        test = R().visit(cond.test)
        out.append("def %s (cardinality : Card) : Card :=\n  if %s then %s else cardinality\n" % (name, tr.expr(test), tr.value(assign.value, 'card')))
        report[name] = 'translated'
    except (Untranslatable, IndexError, AttributeError, KeyError) as e:
        out.append("def %s_untranslatable : Unit := ()\n" % name); report[name] = 'UNTRANSLATABLE: ' + str(e)[:200]
    # 3. threshold comparison in both strategies: `if frequency >= acceptance_threshold`
    name = 'threshold_keeps'
    try:
        syms = set()
        for rel, cls, meths in (("shexer/core/shexing/strategy/direct_shexing_strategy.py", 'DirectShexingStrategy', ['_yield_base_shapes_direction_aware']),
                                ("shexer/core/shexing/strategy/direct_and_inverse_shexing_strategy.py", 'DirectAndInverseShexingStrategy',
                                 ['_build_base_inverse_statements', '_build_base_direct_statements'])):
            tree = parse(rel)
            for m in meths:
                fn = find_func(tree, m, cls)
                found = [n for n in ast.walk(fn) if isinstance(n, ast.Compare) and isinstance(n.left, ast.Name) and n.left.id == 'frequency'
                         and isinstance(n.comparators[0], ast.Name) and n.comparators[0].id == 'acceptance_threshold']
                if len(found) != 1:
                    raise Untranslatable("threshold test in " + m)
                syms.add({ast.GtE: "≥", ast.Gt: ">", ast.LtE: "≤", ast.Lt: "<", ast.Eq: "=", ast.NotEq: "≠"}[type(found[0].ops[0])])
        if len(syms) != 1:
            raise Untranslatable("strategies disagree on the threshold operator: %s" % sorted(syms))
        out.append("/-- `frequency %s acceptance_threshold`, frequency = n / N, threshold = a / b (N, b > 0) -/\n"
                   "def threshold_keeps (n N a b : Nat) : Bool := decide (n * b %s a * N)\n" % (list(syms)[0], list(syms)[0]))
        report[name] = 'translated'
    except (Untranslatable, IndexError, AttributeError, KeyError) as e:
        out.append("def %s_untranslatable : Unit := ()\n" % name); report[name] = 'UNTRANSLATABLE: ' + str(e)[:200]
    # 4. cardinality_representation
    name = 'cardinality_representation'
    try:
        tree = parse("shexer/io/shex/formater/statement_serializers/base_statement_serializer.py")
        fn = find_func(tree, 'cardinality_representation', 'BaseStatementSerializer')
        body = [s for s in fn.body if not (isinstance(s, ast.Assign) and isinstance(s.value, ast.Attribute) and s.value.attr == 'cardinality')]
        tr = Tr({'cardinality': 'card', 'out_of_comment': 'bool'}, allc, 'str')
        out.append("def %s (cardinality : Card) (out_of_comment : Bool) : String :=\n  %s\n" % (name, tr.block(body, None)))
        report[name] = 'translated'
    except (Untranslatable, IndexError, AttributeError, KeyError) as e:
        out.append("def %s_untranslatable : Unit := ()\n" % name); report[name] = 'UNTRANSLATABLE: ' + str(e)[:200]


if __name__ == '__main__':
    main()
