"""Known findings: loaded from the committed known_findings.json (never written at run time).
A failure is suppressed only if a listed finding's trigger holds for that input and observation."""
import json, os
from common import VERIF


def load(pid):
    path = os.path.join(VERIF, "known_findings.json")
    if not os.path.exists(path):
        return []
    return [f for f in json.load(open(path)).get("findings", []) if pid in f["properties"]]


def match(findings, obs):
    for f in findings:
        trig = TRIGGERS.get(f["trigger"])
        if trig is not None and trig(f, obs):
            return f["id"]
    return None


def replay(f):
    """re-run the pinned reproducer of a finding; True if it still reproduces"""
    fn = REPLAYS.get(f["trigger"])
    if fn is None:
        return False
    try:
        return bool(fn(f))
    except Exception:
        return False


TRIGGERS = {}
REPLAYS = {}


def trigger(name):
    def deco(fn):
        TRIGGERS[name] = fn
        return fn
    return deco


def replayer(name):
    def deco(fn):
        REPLAYS[name] = fn
        return fn
    return deco


# ------------------------------------------------------------------ C07: urljoin drops an empty path segment of a relative reference
@trigger("c07_empty_path_segment")
def _t_c07_empty_segment(f, obs):
    return obs.get("kind") == "ttl_relative_reference" and "//" in obs.get("reference", "")[1:] and "://" not in obs.get("reference", "")


@replayer("c07_empty_path_segment")
def _r_c07_empty_segment(f):
    import common
    from shexer.io.graph.yielder.big_ttl_triples_yielder import BigTtlTriplesYielder
    doc = "@base <http://example.org/base/dir/> .\n<a//b> <http://e/p> <http://e/o> .\n"
    ts = [str(t[0]) for t in BigTtlTriplesYielder(raw_graph=doc).yield_triples()]
    return ts == ["http://example.org/base/dir/a/b"]


# ------------------------------------------------------------------ C20
def _sm_unsupported(v):
    return (v['shape_map_file'] or v['shape_map_raw']) and not v['url_endpoint'] and not v['rdflib_graph'] and (
        v['graph_list_of_files_input'] or v['url_graph_input'] or v['list_of_url_input']
        or ((v['graph_file_input'] or v['raw_graph']) and v['input_format'] in ('tsv_spo', 'turtle_iter'))
        or (v['graph_file_input'] and v['compression_mode'] is not None))


@trigger("c20_shape_map_unsupported_source")
def _t_c20_sm(f, obs):
    # the constructor fails (ValueError or a parser error) on an otherwise valid record, or reports a
    # different error class on an invalid one, because the selector engine cannot read the source
    return obs.get("kind") == "init" and _sm_unsupported(obs["vector"]) and obs["outcome"] != "ok" \
        and obs["outcome"] != "hang" and (obs["spec"] == "ok" or obs["outcome"].startswith("other:"))


@replayer("c20_shape_map_unsupported_source")
def _r_c20_sm(f):
    import common
    from shexer.shaper import Shaper
    try:
        Shaper(graph_list_of_files_input=["/nonexistent.nt"], shape_map_raw="<http://example.org/a>@<http://example.org/S>")
        return False
    except ValueError:
        return True


@trigger("c20_remote_line_format")
def _t_c20_remote(f, obs):
    v = obs.get("vector")
    return obs.get("kind") == "init" and (v['url_graph_input'] or v['list_of_url_input']) and v['input_format'] in ('tsv_spo', 'turtle_iter') \
        and obs["outcome"] == "ok" and obs.get("later") == "ValueError"


@replayer("c20_remote_line_format")
def _r_c20_remote(f):
    import common, tempfile, os
    from shexer.shaper import Shaper
    d = tempfile.mkdtemp(prefix="verif_f_")
    try:
        path = os.path.join(d, "g.tsv")
        open(path, "w").write("<http://e/a>\t<http://www.w3.org/1999/02/22-rdf-syntax-ns#type>\t<http://e/C>\n")
        s = Shaper(url_graph_input="file://" + path, input_format="tsv_spo", all_classes_mode=True)
        try:
            s.shex_graph(string_output=True)
            return False
        except ValueError as e:
            return "nsupported" in str(e)
    finally:
        import shutil
        shutil.rmtree(d, ignore_errors=True)


@trigger("c20_zip_without_file")
def _t_c20_zip(f, obs):
    v = obs.get("vector")
    return obs.get("kind") == "init" and v['compression_mode'] is not None and (v['raw_graph'] or v['rdflib_graph']) \
        and obs["outcome"] == "ok" and obs.get("later") == "other:TypeError"


@replayer("c20_zip_without_file")
def _r_c20_zip(f):
    import common
    from shexer.shaper import Shaper
    s = Shaper(raw_graph="<http://e/a> <http://www.w3.org/1999/02/22-rdf-syntax-ns#type> <http://e/C> .\n",
               all_classes_mode=True, compression_mode="zip")
    try:
        s.shex_graph(string_output=True)
        return False
    except TypeError:
        return True


# ------------------------------------------------------------------ C01 / C03: NONLITERAL merge
import oracle as _oracle


@trigger("nonliteral_both_kinds")
def _t_nl_both(f, obs):
    """failing figure is on a NONLITERAL line / comment and some selected instance of the class has
    both an IRI and a blank-node value for that property and direction"""
    fact = obs.get("fact")
    if not fact or fact.get("ty") != "NONLITERAL":
        return False
    return _oracle.has_both_kinds(obs["triples"], obs["cfg"], fact["class"], fact["prop"], fact["inv"])


@trigger("nonliteral_mixed_exact_cards")
def _t_nl_mixed(f, obs):
    """NONLITERAL '+' figure built from a BNode and an IRI survivor that are not both '+'
    (possible only with keep_less_specific=False)"""
    fact = obs.get("fact")
    if not fact or fact.get("ty") != "NONLITERAL" or obs["cfg"]["keep_less_specific"]:
        return False
    if fact.get("card") != "+":
        return False
    parts = [c for (t, c, n) in fact.get("siblings", []) if t in ("BNode", "IRI")]
    return len(parts) >= 2 and not all(c == "+" for c in parts[:2]) or len(parts) < 2


def _run_pinned(nt, **kw):
    import common
    from shexer.shaper import Shaper
    from shexer.consts import MIXED_INSTANCES
    s = Shaper(raw_graph=nt, all_classes_mode=True, instances_report_mode=MIXED_INSTANCES, **kw)
    return s.shex_graph(string_output=True)


_T = "<http://www.w3.org/1999/02/22-rdf-syntax-ns#type>"


def _e(x):
    return "<http://example.org/%s>" % x


@replayer("nonliteral_both_kinds")
def _r_nl_both(f):
    nt = "".join(l + " .\n" for l in [_e('a') + " " + _T + " " + _e('C'), _e('b') + " " + _T + " " + _e('C'), _e('c') + " " + _T + " " + _e('C'),
                                        _e('b') + " " + _e('q') + " " + _e('a'), _e('b') + " " + _e('q') + " _:b1", _e('c') + " " + _e('q') + " " + _e('z')])
    out = _run_pinned(nt)
    # b has two non-literal values, yet the NONLITERAL figure says cardinality {1} for both b and c
    return any("NONLITERAL" in line and "(3 instances)" in line for line in out.split("\n"))


@replayer("nonliteral_mixed_exact_cards")
def _r_nl_mixed(f):
    nt = "".join(l + " .\n" for l in [_e('a') + " " + _T + " " + _e('C'), _e('b') + " " + _T + " " + _e('C'), _e('c') + " " + _T + " " + _e('C'),
                                        _e('u') + " " + _T + " " + _e('D'), _e('a') + " " + _e('p') + " _:x", _e('b') + " " + _e('p') + " " + _e('u'),
                                        _e('b') + " " + _e('p') + " " + _e('v'), _e('c') + " " + _e('p') + " " + _e('w')])
    out = _run_pinned(nt, keep_less_specific=False, all_instances_are_compliant_mode=False)
    for line in out.split("\n"):
        if "NONLITERAL" in line and "+" in line.split("NONLITERAL")[1].split("#")[0]:
            return "(2 instances)" in line
    return False


# ------------------------------------------------------------------ C02
@trigger("c02_kinds_thresholded_separately")
def _t_c02_kinds(f, obs):
    """a non-literal key is missing although enough instances have a non-literal value, because
    neither the IRI kind nor the BNode kind reaches the threshold on its own"""
    if obs.get("kind") != "missing_key":
        return False
    inv, prop, vc = obs["key"]
    if vc != "nonliteral":
        return False
    cfg, g, c = obs["cfg"], obs["triples"], obs["class"]
    a, b = cfg['th']
    N = obs["N"]
    sel = _oracle.selection(g, cfg)
    ni = nb = 0
    ignore = cfg.get('ignore_ns') or []
    for n, cls in sel.items():
        if c not in cls:
            continue
        kinds = set()
        for s, p, o in g:
            if p != prop:
                continue
            if not inv and s[1] == n and s[0] in 'IB' and o[0] in 'IB':
                kinds.add(o[0])
            if inv and o[0] in 'IB' and o[1] == n and s[0] in 'IB':
                kinds.add(s[0])
        ni += 'I' in kinds
        nb += 'B' in kinds
    return ni * b < a * N and nb * b < a * N


@replayer("c02_kinds_thresholded_separately")
def _r_c02_kinds(f):
    nt = "".join(l + " .\n" for l in [_e('a') + " " + _T + " " + _e('C'), _e('b') + " " + _T + " " + _e('C'),
                                       _e('a') + " " + _e('p') + " " + _e('x'), _e('b') + " " + _e('p') + " _:y"])
    import common
    from shexer.shaper import Shaper
    out = Shaper(raw_graph=nt, all_classes_mode=True).shex_graph(string_output=True, acceptance_threshold=0.6)
    return "example.org/p" not in out


@trigger("c02_reference_to_removed_shape")
def _t_c02_gone(f, obs):
    """a non-literal key is missing because its values are instances of a class whose (empty) shape
    was removed: the statement that referred to that shape is dropped instead of falling back to IRI"""
    if obs.get("kind") == "order_dependent_keys":
        # two deliveries / orders of one graph: only non-literal keys differ, empty shapes are removed and one was
        return bool(obs["cfg"]["remove_empty"]) and obs.get("a_shape_was_removed") is True and all(k[2] == "nonliteral" for k in obs["keys"])
    if obs.get("kind") != "missing_key" or obs["key"][2] != "nonliteral" or not obs["cfg"]["remove_empty"]:
        return False
    inv, prop, _ = obs["key"]
    cfg, g, c = obs["cfg"], obs["triples"], obs["class"]
    sel = _oracle.selection(g, cfg)
    produced = set(sh['label'] for sh in obs["parsed"]['shapes'])
    for s, p, o in g:
        if p != prop or s[0] not in 'IB' or o[0] not in 'IB':
            continue
        node, val = (o, s) if inv else (s, o)
        if node[1] in sel and c in sel[node[1]] and val[1] in sel:
            if any(_oracle.shape_label(d, SHAPES_NS_DEFAULT) not in produced and _oracle.shape_label(d, cfg['shapes_ns']) not in produced
                   for d in sel[val[1]]):
                return True
    return False


SHAPES_NS_DEFAULT = "http://weso.es/shapes/"


@replayer("c02_reference_to_removed_shape")
def _r_c02_gone(f):
    import common
    from shexer.shaper import Shaper
    nt = "".join(l + " .\n" for l in [_e('a') + " " + _T + " " + _e('C'), _e('x') + " " + _T + " " + _e('D'),
                                       _e('a') + " " + _e('p') + " " + _e('x'), _e('a') + " " + _e('q') + ' "v"'])
    out = Shaper(raw_graph=nt, all_classes_mode=True,
                 namespaces_to_ignore=["http://www.w3.org/1999/02/22-rdf-syntax-ns#"]).shex_graph(string_output=True)
    return "example.org/q" in out and "example.org/p" not in out


# ------------------------------------------------------------------ C05 / C13: custom shapes namespace
@trigger("custom_shapes_ns_references")
def _t_custom_ns(f, obs):
    """with a non-default shapes_namespace, shape references still use the default namespace, so they
    no longer name the shapes of the document (and are not cleaned up with removed shapes)"""
    if obs.get("kind") == "shapes_ns_pair":
        custom = obs["cfg"]["shapes_ns"] != SHAPES_NS_DEFAULT or obs["cfg2"]["shapes_ns"] != SHAPES_NS_DEFAULT
        refs = any(t.startswith('%') for p in (obs["parsed1"], obs["parsed2"]) for sh in p['shapes'] for st in sh['stmts']
                   for t in st['types'] + [c.get('ty', '') for c in st['comments'] if 'example' not in c])
        return custom and refs
    if obs.get("kind") == "dangling_reference":
        return obs["cfg"]["shapes_ns"] != SHAPES_NS_DEFAULT and obs["ref"].startswith(SHAPES_NS_DEFAULT)
    return False


@replayer("custom_shapes_ns_references")
def _r_custom_ns(f):
    import common
    from shexer.shaper import Shaper
    nt = "".join(l + " .\n" for l in [_e('a') + " " + _T + " " + _e('C'), _e('b') + " " + _T + " " + _e('D'), _e('a') + " " + _e('p') + " " + _e('b')])
    out = Shaper(raw_graph=nt, all_classes_mode=True, shapes_namespace="http://custom.org/shapes/").shex_graph(string_output=True)
    return "@<http://weso.es/shapes/D>" in out


# ------------------------------------------------------------------ C13: decimals = 0
@trigger("decimals_zero_truncates")
def _t_dec0(f, obs):
    if obs.get("kind") != "ratio_text" or obs["decimals"] != 0:
        return False
    from fractions import Fraction
    import math
    return Fraction(obs["ratio"]) == math.floor(Fraction(100 * obs["n"], obs["N"]))


@replayer("decimals_zero_truncates")
def _r_dec0(f):
    import common
    from shexer.shaper import Shaper
    nt = "".join(l + " .\n" for l in [_e('a') + " " + _T + " " + _e('C'), _e('b') + " " + _T + " " + _e('C'), _e('c') + " " + _T + " " + _e('C'),
                                       _e('a') + " " + _e('p') + ' "1"', _e('b') + " " + _e('p') + ' "1"'])
    out = Shaper(raw_graph=nt, all_classes_mode=True, decimals=0).shex_graph(string_output=True)
    return "66 %" in out


# ------------------------------------------------------------------ C03: the three root causes outside the strict domain
def _values(g, node, prop, inv):
    return [s if inv else o for s, p, o in g if p == prop and ((o[0] in 'IB' and o[1] == node) if inv else s[1] == node)]


@trigger("c03_shape_ref_on_tie")
def _t_c03_tie(f, obs):
    """a shape reference was chosen although some value of the property is not an instance of that shape
    (the reference wins a tie on instance count: `<` in _no_bnode_merging_strategy) - only outside the strict domain"""
    if obs.get("kind") != "conformance" or obs["strict"]:
        return False
    e = obs["error"]
    sts = [st for sh in obs["parsed"]['shapes'] for st in sh['stmts'] if st['inv'] == e['inv'] and st['prop'] == e['prop']]
    return any(t.startswith('%<') for st in sts for t in st['types'])


@trigger("c03_nonliteral_merge")
def _t_c03_nl(f, obs):
    if obs.get("kind") != "conformance" or obs["strict"]:
        return False
    e = obs["error"]
    return e['kind'] == 'cardinality' and 'NONLITERAL' in e.get('types', [])


@trigger("c03_keep_less_specific_off")
def _t_c03_kls(f, obs):
    """keep_less_specific=False: '?' (or an exact cardinality at 100 %) emitted while another instance has more values"""
    if obs.get("kind") != "conformance" or obs["cfg"]["keep_less_specific"]:
        return False
    return obs["error"]['kind'] == 'cardinality'


@trigger("c03_mixed_kinds_outside_domain")
def _t_c03_mixed(f, obs):
    """outside the strict domain a value of a node kind that lost the merge (IRI vs BNode vs shape) is unmatched"""
    if obs.get("kind") != "conformance" or obs["strict"]:
        return False
    e = obs["error"]
    return e['kind'] == 'value-unmatched' and e['value'][0] in 'IB'


@replayer("c03_shape_ref_on_tie")
def _r_c03_tie(f):
    nt = "".join(l + " .\n" for l in [_e('a') + " " + _T + " " + _e('C'), _e('a') + " " + _e('p') + " " + _e('x'), _e('a') + " " + _e('p') + " " + _e('u'),
                                       _e('x') + " " + _T + " " + _e('D')])
    out = _run_pinned(nt)
    return any("example.org/p" in l and "@" in l and "#" in l for l in out.split("\n"))


@replayer("c03_keep_less_specific_off")
def _r_c03_kls(f):
    nt = "".join(l + " .\n" for l in [_e('a') + " " + _T + " " + _e('C'), _e('b') + " " + _T + " " + _e('C'), _e('c') + " " + _T + " " + _e('C'),
                                       _e('a') + " " + _e('p') + ' "1"', _e('b') + " " + _e('p') + ' "1"', _e('b') + " " + _e('p') + ' "2"'])
    out = _run_pinned(nt, keep_less_specific=False)
    return any("example.org/p" in l and "?" in l.split("#")[0] for l in out.split("\n"))


# ------------------------------------------------------------------ C09
@trigger("c09_tie_dependent_facts")
def _t_c09_tie(f, obs):
    """alternatives tie in count: which of the tied alternatives wins (and hence which true figures are printed
    in comments) depends on dictionary order, i.e. on statement order"""
    return obs.get("kind") in ("evidence", "choice") and bool(obs.get("tie"))


@replayer("c09_tie_dependent_facts")
def _r_c09_tie(f):
    a = "".join(l + " .\n" for l in [_e('a') + " " + _T + " " + _e('C'), _e('b') + " " + _T + " " + _e('C'),
                                      _e('a') + " " + _e('p') + ' "1"', _e('b') + " " + _e('p') + ' "1"', _e('b') + " " + _e('p') + ' "2"'])
    b = "".join(l + " .\n" for l in [_e('b') + " " + _T + " " + _e('C'), _e('a') + " " + _T + " " + _e('C'),
                                      _e('b') + " " + _e('p') + ' "1"', _e('b') + " " + _e('p') + ' "2"', _e('a') + " " + _e('p') + ' "1"'])
    o1 = _run_pinned(a, keep_less_specific=False)
    o2 = _run_pinned(b, keep_less_specific=False)
    strip = lambda o: sorted(l.strip() for l in o.split("\n") if "example.org/p" in l or "Cardinality" in l)
    return strip(o1) != strip(o2)


# ------------------------------------------------------------------ C05 / C11: rdflib serialises `sh:path rdf:type` without declaring rdf:
@trigger("shacl_rdf_prefix_not_declared")
def _t_shacl_rdf(f, obs):
    return obs.get("kind") == "exception" and 'Prefix "rdf:" not bound' in obs.get("msg", "") \
        and obs["cfg"]["inst_prop"] != "http://www.w3.org/1999/02/22-rdf-syntax-ns#type"


@replayer("shacl_rdf_prefix_not_declared")
def _r_shacl_rdf(f):
    import common, rdflib
    from shexer.shaper import Shaper
    from shexer.consts import SHACL_TURTLE
    nt = "".join(l + " .\n" for l in [_e('a') + " " + _e('inst') + " " + _e('C'), _e('a') + " " + _T + " " + _e('D')])
    out = Shaper(raw_graph=nt, all_classes_mode=True, instantiation_property="http://example.org/inst",
                 namespaces_dict={"http://www.w3.org/1999/02/22-rdf-syntax-ns#": "rdf"}).shex_graph(string_output=True, output_format=SHACL_TURTLE)
    try:
        rdflib.Graph().parse(data=out, format="turtle")
        return False
    except Exception:
        return True


# ------------------------------------------------------------------ C05: duplicate labels
@trigger("duplicate_label_same_local_name")
def _t_dup_label(f, obs):
    if obs.get("kind") != "duplicate_label":
        return False
    g, cfg = obs["triples"], obs["cfg"]
    classes = set(o[1] for s, p, o in g if p == cfg['inst_prop'] and o[0] in 'IB')
    if cfg['target_mode'] == 'classes':
        classes |= set(cfg['targets'])
    locs = [_oracle.shape_label(c, "") for c in classes]
    return len(locs) != len(set(locs))


@replayer("duplicate_label_same_local_name")
def _r_dup_label(f):
    import common
    from shexer.shaper import Shaper
    nt = "".join(l + " .\n" for l in [_e('a') + " " + _T + " " + _e('C'), _e('b') + " " + _T + " <http://other.org/ns#C>"])
    out = Shaper(raw_graph=nt, all_classes_mode=True).shex_graph(string_output=True)
    return out.count("\n:C") >= 2


# ------------------------------------------------------------------ C17
@trigger("quoted_prefixed_example")
def _t_c17_q(f, obs):
    # the printed example is "pre:local" in quotes, its expansion is a real value, and that value is an IRI the
    # serialiser shortened before quoting (direct mode: any http IRI; inverse mode: https IRIs only)
    if obs.get("kind") != "example_quoted_prefixed":
        return False
    iri = obs["expanded"]
    return iri in obs["values"] and (iri.startswith("https://") if obs["inverse_paths"] else iri.startswith("http"))


@replayer("quoted_prefixed_example")
def _r_c17_q(f):
    from shexer.shaper import Shaper
    from shexer import consts as C
    nt = '<http://example.org/a> <http://www.w3.org/1999/02/22-rdf-syntax-ns#type> <http://example.org/C> .\n' \
         '<http://example.org/a> <http://example.org/knows> <http://example.org/Bella> .\n'
    t = Shaper(raw_graph=nt, input_format=C.NT, all_classes_mode=True, namespaces_dict={"http://example.org/": "ex"},
               examples_mode=C.CONSTRAINT_EXAMPLES).shex_graph(string_output=True)
    return '// rdfs:comment "ex:Bella"' in t


@trigger("empty_target_list")
def _t_empty_targets(f, obs):
    return obs.get("kind") == "exception" and obs.get("exc") == "ValueError" and "There are not target classes" in obs.get("msg", "") \
        and obs.get("empty_targets") is True


@replayer("empty_target_list")
def _r_empty_targets(f):
    from shexer.shaper import Shaper
    from shexer import consts as C
    nt = '<http://example.org/a> <http://www.w3.org/1999/02/22-rdf-syntax-ns#type> <http://example.org/C> .\n'
    s = Shaper(raw_graph=nt, input_format=C.NT, target_classes=[])
    try:
        s.shex_graph(string_output=True)
        return False
    except ValueError as e:
        return "There are not target classes" in str(e)


@trigger("bnode_in_inverse_value_set")
def _t_bnode_value_set(f, obs):
    """inverse_paths and a blank node that is an instance of a class which is itself a selected instance: the incoming instantiation
    constraint of that class names the blank node in a value set"""
    cfg, g = obs.get("cfg") or {}, obs.get("triples") or []
    if not cfg.get("inverse"):
        return False
    ip = cfg.get("inst_prop")
    typed = {s for s, p, o in g if p == ip}
    return any(p == ip and s[0] == 'B' and o in typed for s, p, o in g)


@replayer("bnode_in_inverse_value_set")
def _r_bnode_value_set(f):
    from shexer.shaper import Shaper
    from shexer import consts as C
    T = '<http://www.w3.org/1999/02/22-rdf-syntax-ns#type>'
    nt = '_:b0 %s <http://example.org/C> .\n<http://example.org/C> %s <http://example.org/Meta> .\n' % (T, T)
    shexc = Shaper(raw_graph=nt, input_format=C.NT, all_classes_mode=True, inverse_paths=True).shex_graph(string_output=True)
    try:
        Shaper(raw_graph=nt, input_format=C.NT, all_classes_mode=True, inverse_paths=True).shex_graph(string_output=True, output_format=C.SHACL_TURTLE)
        crashed = False
    except ValueError:
        crashed = True
    return "_:b0" in shexc and crashed


# ------------------------------------------------------------------ C19
@trigger("rdflib_bnodes_order")
def _t_c19_bn(f, obs):
    return obs.get("kind") in ("hashseed", "delivery") and obs.get("bnodes") is True and obs.get("delivery") in ("turtle", "xml", "json-ld", "n3", "graph",
                                                                                                                "rdflib", "files-rdflib")


@replayer("rdflib_bnodes_order")
def _r_c19_bn(f):
    import rdflib
    a = rdflib.Graph().parse(data="_:b <http://e/p> <http://e/o> .", format="nt")
    b = rdflib.Graph().parse(data="_:b <http://e/p> <http://e/o> .", format="nt")
    return str(next(iter(a))[0]) != str(next(iter(b))[0])
