"""Known findings: loaded from the committed known_findings.json (never written at run time).
A failure is suppressed only if a listed finding's trigger holds for that input and observation."""
import json, os
from common import VERIF


def load(pid):
    path = os.path.join(VERIF, "known_findings.json")
    if not os.path.exists(path):
        return []
    return [f for f in json.load(open(path)).get("findings", []) if pid in f["properties"]]


def match(findings, obs):
    for f in findings:
        trig = TRIGGERS.get(f["trigger"])
        if trig is not None and trig(f, obs):
            return f["id"]
    return None


def replay(f):
    """re-run the pinned reproducer of a finding; True if it still reproduces"""
    fn = REPLAYS.get(f["trigger"])
    if fn is None:
        return False
    try:
        return bool(fn(f))
    except Exception:
        return False


TRIGGERS = {}
REPLAYS = {}


def trigger(name):
    def deco(fn):
        TRIGGERS[name] = fn
        return fn
    return deco


def replayer(name):
    def deco(fn):
        REPLAYS[name] = fn
        return fn
    return deco


# ------------------------------------------------------------------ C20
def _sm_unsupported(v):
    return (v['shape_map_file'] or v['shape_map_raw']) and not v['url_endpoint'] and not v['rdflib_graph'] and (
        v['graph_list_of_files_input'] or v['url_graph_input'] or v['list_of_url_input']
        or ((v['graph_file_input'] or v['raw_graph']) and v['input_format'] in ('tsv_spo', 'turtle_iter'))
        or (v['graph_file_input'] and v['compression_mode'] is not None))


@trigger("c20_shape_map_unsupported_source")
def _t_c20_sm(f, obs):
    # the constructor fails (ValueError or a parser error) on an otherwise valid record, or reports a
    # different error class on an invalid one, because the selector engine cannot read the source
    return obs.get("kind") == "init" and _sm_unsupported(obs["vector"]) and obs["outcome"] != "ok" \
        and obs["outcome"] != "hang" and (obs["spec"] == "ok" or obs["outcome"].startswith("other:"))


@replayer("c20_shape_map_unsupported_source")
def _r_c20_sm(f):
    import common
    from shexer.shaper import Shaper
    try:
        Shaper(graph_list_of_files_input=["/nonexistent.nt"], shape_map_raw="<http://example.org/a>@<http://example.org/S>")
        return False
    except ValueError:
        return True


@trigger("c20_zip_without_file")
def _t_c20_zip(f, obs):
    v = obs.get("vector")
    return obs.get("kind") == "init" and v['compression_mode'] is not None and (v['raw_graph'] or v['rdflib_graph']) \
        and obs["outcome"] == "ok" and obs.get("later") == "other:TypeError"


@replayer("c20_zip_without_file")
def _r_c20_zip(f):
    import common
    from shexer.shaper import Shaper
    s = Shaper(raw_graph="<http://e/a> <http://www.w3.org/1999/02/22-rdf-syntax-ns#type> <http://e/C> .\n",
               all_classes_mode=True, compression_mode="zip")
    try:
        s.shex_graph(string_output=True)
        return False
    except TypeError:
        return True
