#!/usr/bin/env python3
"""matrix_table.py : rewrites section 11.9 of DESIGN.md from seeded/MATRIX.json"""
import json, os, re
VERIF = os.path.dirname(os.path.dirname(os.path.abspath(__file__)))
m = json.load(open(os.path.join(VERIF, "seeded", "MATRIX.json")))


def key(s):
    p, k = s.split("-m")
    return (p, int(k))


rows = []
for sd in sorted(m, key=key):
    v = m[sd]
    if "detected_by" not in v:
        rows.append("| %s | %s | - |" % (sd, v.get("error", "?")))
        continue
    own = v["own_property"]
    d = v["detected_by"]
    o = d.get(own)
    own_txt = "failing input" if o == "violation" else ("broken obligation, no failing input" if o == "no-failing-input-found" else ("not reported" if o is None else o))
    others = []
    for p in sorted(d):
        if p == own:
            continue
        others.append(p + ("" if d[p] == "violation" else "*" if d[p] == "no-failing-input-found" else " (%s)" % d[p]))
    rows.append("| %s | %s | %s |" % (sd, own_txt, ", ".join(others) or "-"))
n = len(m)
own_ok = sum(1 for v in m.values() if v.get("detected_by", {}).get(v.get("own_property")) == "violation")
head = """### 11.9 Seed matrix (`seeded/MATRIX.json`)

Every seeded change applied to a scratch checkout in turn, all twenty quick checks run, tree restored (`harness/seed_matrix.py`, run in
`vp run` snapshots). "own check": what the check of the property the change was written for reports; "other checks": checks of other
properties that also report a violation - with a failing input, or (`*`) a broken proof obligation / correspondence without a failing
input of their own (the change does not break *their* property on the inputs they explore, but their model no longer matches the code,
so they say `no-failing-input-found`). Full rows were computed at the commit named in `matrix_commit` of each entry; the own-check column
was recomputed for every seed on the final tree (`seed_matrix.py --own-only`, `own_rechecked_at`). %d seeds, %d of them reported by their
own check with a failing input.

| seed | own check | other checks |
|----|----|----|
""" % (n, own_ok)
p = os.path.join(VERIF, "DESIGN.md")
s = open(p).read()
i = s.index("### 11.9 Seed matrix")
s = s[:i] + head + "\n".join(rows) + "\n"
open(p, "w").write(s)
print(n, own_ok)
