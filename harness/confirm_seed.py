#!/usr/bin/env python3
"""confirm_seed.py <prop id> <k> : confirms a sub-agent's mutation in its scratch worktree
(/tmp/wt/<id>): baseline suite still 182 green with the patch, demo exits 1 with / 0 without;
then stores it under /verif/seeded/<id>-m<k>/ with meta.json."""
import sys, os, subprocess, json, shutil, xml.etree.ElementTree as ET
pid, k = sys.argv[1], sys.argv[2]
dk = sys.argv[3] if len(sys.argv) > 3 else k      # index under /verif/seeded (the sub-agent numbers its changes from 1)
wt = "/tmp/wt/%s" % pid
out = "/tmp/seeded_out/%s" % pid
patch = "%s/m%s.patch.diff" % (out, k)
demo = "%s/m%s.demo.py" % (out, k)
env = dict(os.environ, PYTHONPATH=wt)


def sh(cmd, **kw):
    return subprocess.run(cmd, shell=True, capture_output=True, text=True, env=env, **kw)


def run_demo():
    shutil.copy(demo, wt + "/_demo.py")
    r = sh("cd %s && timeout 300 /venv/bin/python _demo.py" % wt)
    os.remove(wt + "/_demo.py")
    return r.returncode, (r.stdout + r.stderr)[-1500:]


assert sh("cd %s && git status --short | grep -v '^??'" % wt).stdout.strip() == "", "worktree dirty"
rc0, o0 = run_demo()
assert sh("cd %s && git apply %s" % (wt, patch)).returncode == 0, "patch does not apply"
try:
    r = sh("cd %s && /venv/bin/python -m pytest -q -p no:cacheprovider --timeout=900 --continue-on-collection-errors --junitxml=/tmp/seeded_out/j.xml" % wt)
    base = json.load(open("/root/.vp/BASELINE.json"))
    t = ET.parse("/tmp/seeded_out/j.xml").getroot()
    ok = set(tc.get("classname") + "::" + tc.get("name") for tc in t.iter("testcase") if not any(c.tag in ("failure", "error", "skipped") for c in tc))
    missing = [x for x in base["stable_pass"] if x not in ok]
    rc1, o1 = run_demo()
finally:
    sh("cd %s && git checkout -- ." % wt)
verdict = {"suite_baseline_tests_passing_with_patch": len(base["stable_pass"]) - len(missing), "baseline_missing": missing,
           "demo_exit_without_patch": rc0, "demo_exit_with_patch": rc1}
print(json.dumps(verdict, indent=1))
good = (not missing) and rc0 == 0 and rc1 == 1
print("CONFIRMED" if good else "REJECTED")
if good:
    dst = "/verif/seeded/%s-m%s" % (pid, dk)
    os.makedirs(dst, exist_ok=True)
    shutil.copy(patch, dst + "/patch.diff")
    shutil.copy(demo, dst + "/demo.py")
    notes = open("%s/m%s.notes.md" % (out, k)).read() if os.path.exists("%s/m%s.notes.md" % (out, k)) else ""
    meta = {"id": "%s-m%s" % (pid, dk), "breaks_property": pid, "needs_to_manifest": "see notes.md (written by the sub-agent that produced the change)",
            "confirmed_by": "harness/confirm_seed.py in scratch worktree %s" % wt, "confirmation": verdict,
            "how_to_run": "git -C /repo apply seeded/%s-m%s/patch.diff && ./check %s ; git -C /repo checkout -- ." % (pid, dk, pid),
            "demo_output_with_patch_tail": o1[-600:]}
    json.dump(meta, open(dst + "/meta.json", "w"), indent=1)
    open(dst + "/notes.md", "w").write(notes)
sys.exit(0 if good else 1)
