#!/bin/bash
# usage: try_seed.sh <patch> <property ids...>   -- applies a seeded patch to /repo, runs the checks, reverts
patch="$1"; shift
cd /repo && git status --short | grep -v '^??' | head -1 | grep -q . && { echo "/repo dirty"; exit 3; }
git -C /repo apply "$patch" || { echo "patch does not apply"; exit 3; }
for pid in "$@"; do
  (cd /verif && timeout 1800 ./check "$pid" --tier quick 2>&1 | grep -E "VIOLATION|\[done\]|\[proof\]|INFRA" | head -6)
done
git -C /repo checkout -- .
(cd /verif && python3 harness/extract.py >/dev/null 2>&1)   # the generated Lean files must describe the restored tree again
git -C /repo status --short | grep -v '^??' | head -2
