"""SHACL Turtle (as emitted by sheXer) -> canonical node shapes; rdflib is used as the Turtle parser."""
from rdflib import Graph, URIRef, BNode, Literal, RDF, Namespace
from rdflib.collection import Collection

SH = Namespace("http://www.w3.org/ns/shacl#")


class ShaclParseError(Exception):
    pass


def parse(text):
    g = Graph()
    g.parse(data=text, format="turtle")
    shapes = []
    for s in sorted(set(g.subjects(RDF.type, SH.NodeShape)), key=str):
        tcs = [str(o) for o in g.objects(s, SH.targetClass)]
        pats = [str(o) for o in g.objects(s, SH.pattern)]
        props = []
        for b in g.objects(s, SH.property):
            d = {'inverse': None, 'path': None, 'restr': [], 'min': None, 'max': None, 'n_paths': 0, 'typed': (b, RDF.type, SH.PropertyShape) in g}
            for p, o in g.predicate_objects(b):
                if p == SH.path:
                    d['inverse'], d['path'] = False, str(o)
                    d['n_paths'] += 1
                elif p == SH.property:      # sheXer's encoding of inverse paths: sh:property [ sh:inversePath p ]
                    ips = list(g.objects(o, SH.inversePath))
                    if len(ips) != 1:
                        raise ShaclParseError("inverse path encoding")
                    d['inverse'], d['path'] = True, str(ips[0])
                    d['n_paths'] += 1
                elif p == SH.nodeKind:
                    d['restr'].append("nodeKind:" + str(o))
                elif p == SH.dataType:
                    d['restr'].append("datatype:" + str(o))
                elif p == SH.node:
                    d['restr'].append("node:" + str(o))
                elif p == SH['in']:
                    items = list(Collection(g, o))
                    d['restr'].append("in:" + "|".join(str(x) for x in items))
                elif p == SH['or']:
                    alts = []
                    for alt in Collection(g, o):
                        rs = []
                        for p2, o2 in g.predicate_objects(alt):
                            if p2 == SH.nodeKind: rs.append("nodeKind:" + str(o2))
                            elif p2 == SH.dataType: rs.append("datatype:" + str(o2))
                            elif p2 == SH.node: rs.append("node:" + str(o2))
                            else: rs.append("other:" + str(p2))
                        alts.append("|".join(sorted(rs)) or "none")
                    d['restr'].append("or:" + ";".join(sorted(alts)))
                elif p == SH.minCount:
                    d['min'] = int(o)
                elif p == SH.maxCount:
                    d['max'] = int(o)
                elif p == RDF.type:
                    pass
                else:
                    d['restr'].append("other:" + str(p))
            props.append(d)
        shapes.append({'iri': str(s), 'targetClass': tcs, 'pattern': pats, 'props': props})
    node_objs = set(str(o) for o in g.objects(None, SH.node))      # includes the alternatives of sh:or
    declared = set(str(s) for s in g.subjects(RDF.type, SH.NodeShape))
    return {'shapes': shapes, 'sh_node_objects': node_objs, 'declared': declared}


def prop_key(d):
    return (d['inverse'], d['path'], "|".join(sorted(d['restr'])) or "none", d['min'], d['max'])
