#!/usr/bin/env python3
"""seed_matrix.py [seed ids...] [--out file] : applies every seeded change of /verif/seeded to /repo in turn, runs every claimed check
(quick tier) and records which checks report a violation; restores /repo after each. Writes seeded/MATRIX.json."""
import sys, os, json, subprocess, glob, time
REPO = os.environ.get("SHEXER_REPO", "/repo")     # a scratch checkout when run inside `vp run --with-repo`
VERIF = os.path.dirname(os.path.dirname(os.path.abspath(__file__)))
man = json.load(open(os.path.join(VERIF, "MANIFEST.json")))
claimed = [c["property_id"] for c in man["checks"]]
seeds = sorted(os.path.basename(d) for d in glob.glob(os.path.join(VERIF, "seeded", "C*-m*")))
args = sys.argv[1:]
out_path = os.path.join(VERIF, "seeded", "MATRIX.json")
if "--out" in args:
    out_path = args[args.index("--out") + 1]
    args = [a for a in args if a not in ("--out", out_path)]
own_only = "--own-only" in args        # re-run only the check of the seed's own property and refresh that cell of an existing matrix
args = [a for a in args if a != "--own-only"]
if args:
    seeds = [s for s in seeds if s in args]
matrix = json.load(open(out_path)) if os.path.exists(out_path) else {}


def sh(cmd, **kw):
    return subprocess.run(cmd, shell=True, capture_output=True, text=True, **kw)


assert sh("git -C %s status --short | grep -v '^??'" % REPO).stdout.strip() == "", REPO + " dirty"
for sd in seeds:
    patch = os.path.join(VERIF, "seeded", sd, "patch.diff")
    if sh("git -C %s apply %s" % (REPO, patch)).returncode != 0:
        matrix[sd] = {"error": "patch does not apply to the current tree"}
        continue
    row = {}
    t0 = time.time()
    try:
        for pid in ([sd.split("-")[0]] if own_only else claimed):
            r = sh("cd %s && timeout 900 ./check %s --tier quick" % (VERIF, pid))
            txt = r.stdout + r.stderr
            if "VIOLATION property=%s" % pid in txt:
                row[pid] = "no-failing-input-found" if "no-failing-input-found" in txt and "VIOLATION property=%s replay=replays/%s-1-1" % (pid, pid) not in txt else "violation"
            elif r.returncode != 0:
                row[pid] = "exit %d" % r.returncode
    finally:
        sh("git -C %s checkout -- ." % REPO)
    if own_only and sd in matrix and "detected_by" in matrix[sd]:
        own = sd.split("-")[0]
        matrix[sd]["detected_by"].pop(own, None)
        matrix[sd]["detected_by"].update(row)
        matrix[sd]["own_rechecked_at"] = sh("git -C %s rev-parse --short HEAD" % VERIF).stdout.strip()
    else:
        matrix[sd] = {"own_property": sd.split("-")[0], "detected_by": row, "seconds": round(time.time() - t0)}
    json.dump(matrix, open(out_path, "w"), indent=1, sort_keys=True)
    print(sd, row, flush=True)
# leave the evidence files of the clean tree behind
for pid in (sorted({s.split("-")[0] for s in seeds}) if own_only else claimed):
    sh("cd %s && timeout 900 ./check %s --tier quick" % (VERIF, pid))
print("done")
