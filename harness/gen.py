"""Generators of abstract graphs and configurations. Every random choice comes from the one
`random.Random` passed in, so a case replays from (seed, index)."""
from common import *

DTS = [XSD + 'string', XSD + 'integer', XSD + 'date', EX + 'dt/custom']


def gen_graph(rng, nclasses=None, ninst=None, nprops=None, bnodes=True, maxcard=3, langs=True,
              inst_prop=RDF_TYPE, class_links=True):
    """general duplicate-free graph: nodes with 0..n classes, links between typed nodes,
    IRI and blank-node subjects/objects, plain / typed / language-tagged literals"""
    nclasses = nclasses or rng.randint(1, 4)
    ninst = ninst or rng.randint(1, 8)
    nprops = nprops or rng.randint(1, 4)
    classes = [I('C%d' % i) for i in range(nclasses)]
    nodes = []
    for i in range(ninst):
        nodes.append(B('b%d' % i) if bnodes and rng.random() < 0.25 else I('n%d' % i))
    triples = []
    seen = set()

    def add(t):
        if t not in seen:
            seen.add(t)
            triples.append(t)
    for n in nodes:
        k = rng.choice([0, 1, 1, 1, 2, 3])
        for c in rng.sample(classes, min(k, len(classes))):
            add((n, inst_prop, c))
    for n in nodes:
        for pi in range(nprops):
            if rng.random() < 0.3:
                continue
            p = EX + 'p%d' % pi
            for _ in range(rng.randint(1, maxcard)):
                r = rng.random()
                if r < 0.4:
                    if langs and rng.random() < 0.25:
                        o = L('v%d' % rng.randint(0, 3), XSD + 'string', rng.choice(['en', 'es-ES', 'es-419', 'de-CH-1901']))      # digits are legal in later subtags
                    elif rng.random() < 0.08:
                        # a plain string whose text is the address (or label) of a node of the graph: still a literal
                        o = L(rng.choice(nodes)[1], XSD + 'string')
                    else:
                        o = L('v%d' % rng.randint(0, 3), rng.choice(DTS))
                elif r < 0.8:
                    o = rng.choice(nodes)
                else:
                    o = I('x%d' % rng.randint(0, 3)) if rng.random() < 0.7 else B('u%d' % rng.randint(0, 2))
                add((n, p, o))
    if rng.random() < 0.12:
        # classes that are themselves typed (ex:Person a rdfs:Class; Wikidata: wd:Q5 wdt:P31 <metaclass>): a class IRI is then also an instance
        # only classes whose instances are all IRIs: with inverse_paths an instance that is a blank node would be named in a value set
        # ('^ rdf:type [_:b0]': finding F-C04-4, reproduced by its own pinned input)
        ok = [c for c in classes if not any(t[0][0] == 'B' and t[1] == inst_prop and t[2] == c for t in triples)]
        for c in rng.sample(ok, rng.randint(1, min(2, len(ok))) if ok else 0):
            add((c, inst_prop, I('Meta') if rng.random() < 0.6 else rng.choice(classes)))
            if rng.random() < 0.5:
                add((c, EX + 'p0', L('class label')))
    if inst_prop != RDF_TYPE and rng.random() < 0.5:
        # rdf:type must then behave as an ordinary property
        for n in rng.sample(nodes, min(2, len(nodes))):
            add((n, RDF_TYPE, rng.choice(classes)))
    rng.shuffle(triples)
    return triples


SPICY_LEX = ['say "hi"', '6\'2"', 'a "b" c', 'x@y', 'a^^b', 'back\\slash', 'line\u2028sep', 'nel\u0085x', 'ff\x0cx', '"', 'New York #1', 'a . b', '<tag>', 'ünï']


def spice_literals(rng, triples, p=0.3):
    """the same graph with some lexical forms replaced by awkward but legal ones (escaped quotes and backslashes, '@', '^^', '#', ' . ',
    Unicode line boundaries, non-ASCII); datatypes and language tags stay, so every abstract figure stays - only the readers are exercised"""
    out = []
    for s, pr, o in triples:
        if o[0] == 'L' and rng.random() < p:
            o = ('L', rng.choice(SPICY_LEX), o[2], o[3])
        out.append((s, pr, o))
    return out


def gen_schema_graph(rng, inst_prop=RDF_TYPE):
    """'schema-consistent' graph (strict domain of C03/C09): per (class, property) the non-literal
    neighbours are homogeneous in node kind and either all untyped or all instances of one
    single-typed class; arbitrary literal datatypes mixed in; arbitrary cardinalities/presence."""
    nc = rng.randint(1, 3)
    classes = [I('C%d' % i) for i in range(nc)]
    kindof = {c: rng.choice('IIB') for c in classes}
    # at most one class whose members are IRIs and blank nodes mixed; it is never the value class of a property (neighbours stay
    # homogeneous in kind) and it is the one that receives the links from untyped nodes below
    mixc = rng.choice(classes) if rng.random() < 0.35 else None
    nodes = {c: [(I if (kindof[c] == 'I' if c != mixc else rng.random() < 0.5) else B)('%s_%d' % (c[1][-2:], j)) for j in range(rng.randint(1, 4) if c != mixc else rng.randint(2, 4))]
             for c in classes}
    untyped_I = [I('u%d' % i) for i in range(3)]
    untyped_B = [B('ub%d' % i) for i in range(3)]
    triples = []
    seen = set()

    def add(t):
        if t not in seen:
            seen.add(t)
            triples.append(t)
    for c in classes:
        for n in nodes[c]:
            add((n, inst_prop, c))
    for ci, c in enumerate(classes):
        for j in range(rng.randint(1, 3)):
            p = EX + 'p%d_%d' % (ci, j)
            tgt = rng.choice(['lit', 'uI', 'uB'] + ['cls'] * 2)
            tcls = rng.choice([x for x in classes if x != mixc] or classes)
            if tgt == 'cls' and (tcls == mixc or c == mixc):
                tgt = 'uI'          # neither into nor out of the mixed class: the neighbours of every class stay homogeneous in both directions
            mixlit = rng.random() < 0.4
            for n in nodes[c]:
                if rng.random() < 0.25:
                    continue
                for _ in range(rng.randint(1, 3)):
                    if tgt == 'lit' or (mixlit and rng.random() < 0.4):
                        o = L('v%d' % rng.randint(0, 4), rng.choice(DTS[:3]))
                    elif tgt == 'uI':
                        o = rng.choice(untyped_I)
                    elif tgt == 'uB':
                        o = rng.choice(untyped_B)
                    else:
                        o = rng.choice(nodes[tcls])
                    add((n, p, o))
    if mixc is not None or rng.random() < 0.2:
        # links INTO the instances of one class from nodes that have no class (all subjects of that property untyped IRIs): the incoming
        # constraints of blank-node instances depend on them as much as those of IRI instances
        c = mixc or rng.choice(classes)
        p = EX + 'ref%d' % rng.randint(0, 1)
        for n in nodes[c]:
            for _ in range(rng.choice([0, 1, 1, 2])):
                add((rng.choice(untyped_I), p, n))
    rng.shuffle(triples)
    return triples


def classes_of(triples, inst_prop=RDF_TYPE):
    out = []
    for s, p, o in triples:
        if p == inst_prop and o[0] == 'I' and o[1] not in out:
            out.append(o[1])
    return out


def class_sizes(triples, inst_prop=RDF_TYPE):
    d = {}
    for s, p, o in triples:
        if p == inst_prop and o[0] in 'IB':
            d.setdefault(o[1], set()).add(s)
    return {c: len(v) for c, v in d.items()}


def threshold_grid(triples, inst_prop=RDF_TYPE):
    """every k/n boundary of the class sizes present, plus off-grid values"""
    ths = {(0, 1), (1, 1), (1, 2), (51, 100), (1, 3), (2, 3)}
    for n in set(class_sizes(triples, inst_prop).values()):
        for k in range(1, n):
            ths.add((k, n))
    from fractions import Fraction
    return sorted(ths, key=lambda t: Fraction(*t))


BOOL_SWITCHES = ['all_compliant', 'keep_less_specific', 'discard_useless', 'allow_opt', 'disable_exact',
                 'disable_comments', 'remove_empty', 'inverse']


def default_cfg():
    return {'target_mode': 'all', 'targets': None, 'inst_prop': RDF_TYPE, 'cap': -1, 'ignore_ns': None,
            'inverse': False, 'th': (0, 1), 'all_compliant': True, 'keep_less_specific': True,
            'discard_useless': True, 'allow_opt': True, 'disable_exact': False, 'disable_comments': False,
            'disable_or': True, 'allow_redundant_or': False, 'remove_empty': True,
            'report': 'mixed', 'decimals': -1, 'shapes_ns': SHAPES_NS, 'ns_dict': dict(DEFAULT_NS),
            'detect_min_iri': False, 'examples': None}


def gen_cfg(rng, triples, inst_prop=RDF_TYPE, presentation=True, allow_or=False, allow_cap=True, allow_ignore=True):
    cfg = default_cfg()
    cfg['inst_prop'] = inst_prop
    # the caller may write the instantiation property as <iri>, as the plain IRI or (when the namespace has a prefix) as prefix:name
    r_sp = rng.random()
    if r_sp < 0.15:
        cfg['inst_prop_spelled'] = '<%s>' % inst_prop
    elif r_sp < 0.3:
        for ns_, pre_ in DEFAULT_NS.items():
            if inst_prop.startswith(ns_) and '/' not in inst_prop[len(ns_):] and '#' not in inst_prop[len(ns_):]:
                cfg['inst_prop_spelled'] = pre_ + ':' + inst_prop[len(ns_):]
    for k in BOOL_SWITCHES:
        cfg[k] = rng.random() < (0.5 if k not in ('disable_comments',) else 0.15)
    cfg['remove_empty'] = rng.random() < 0.7
    cls = classes_of(triples, inst_prop)
    if rng.random() < 0.5 or not cls:
        cfg['target_mode'] = 'all'
    else:
        cfg['target_mode'] = 'classes'
        k = rng.randint(1, len(cls))
        cfg['targets'] = rng.sample(cls, k)
        if rng.random() < 0.2:
            cfg['targets'].append(EX + 'NoSuchClass')
    cfg['th'] = rng.choice(threshold_grid(triples, inst_prop))
    if allow_cap and rng.random() < 0.2:
        cfg['cap'] = rng.randint(1, max(class_sizes(triples, inst_prop).values() or [1]) + 1)
    if allow_ignore and rng.random() < 0.15:
        cfg['ignore_ns'] = rng.choice([[EX], [EX + 'sub/'], [RDF], [EX, RDF]])
    if allow_or and rng.random() < 0.3:
        cfg['disable_or'] = False
        cfg['allow_redundant_or'] = rng.random() < 0.5
    if presentation:
        cfg['report'] = rng.choice(['mixed', 'mixed', 'abs', 'ratio'])
        cfg['decimals'] = rng.choice([-1, -1, 0, 1, 2, 4])
        if rng.random() < 0.2:
            cfg['shapes_ns'] = rng.choice(['http://shapes.example/', 'http://example.org/shapes#'])
        if rng.random() < 0.3:
            nsd = dict(DEFAULT_NS)
            r = rng.random()
            if r < 0.3:
                nsd = {}
            elif r < 0.6:
                nsd['http://unused.example/'] = rng.choice(['', 'weso-s', 'un'])
            else:
                del nsd[XSD]
            cfg['ns_dict'] = nsd
    return cfg
